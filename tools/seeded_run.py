#!/usr/bin/env python3
"""Run the registered checks against every seeded change under /verif/seeded.

For each change: git -C /repo apply patch.diff; run ./check <property> quick (evidence and
replays redirected to a scratch directory so that /verif/evidence keeps describing the
unchanged tree); git -C /repo checkout -- . ; record the verdict in meta.json.
With --scratch the patch is applied to a scratch export of /repo's HEAD under /dev/shm and the
checks run with VERIF_REPO pointing there (used while something else is reading /repo).
usage: seeded_run.py [--all-checks] [--scratch] [name ...]
"""
import json, os, shutil, subprocess, sys, time
from pathlib import Path

V = Path(__file__).resolve().parent.parent
names = [a for a in sys.argv[1:] if not a.startswith("--")]
all_checks = "--all-checks" in sys.argv
use_scratch = "--scratch" in sys.argv
rows = []
assert subprocess.run(["git", "-C", "/repo", "status", "--porcelain"], capture_output=True, text=True).stdout.strip() == "", "/repo not clean"
for d in sorted((V / "seeded").iterdir()):
    if not (d / "patch.diff").exists() or (names and d.name not in names):
        continue
    meta = json.loads((d / "meta.json").read_text())
    prop = meta["property"]
    scratch = Path(f"/dev/shm/simverif-seeded-{os.getpid()}-{d.name}")
    env = dict(os.environ, VERIF_EVIDENCE_DIR=str(scratch / "evidence"), VERIF_REPLAY_DIR=str(scratch / "replays"))
    if use_scratch:
        (scratch / "repo").mkdir(parents=True)
        subprocess.check_call(f"git -C /repo archive HEAD | tar -x -C {scratch}/repo", shell=True)
        subprocess.check_call(["git", "apply", "--directory", str(scratch / "repo").lstrip("/"), "--unsafe-paths", str(d / "patch.diff")], cwd="/")
        env["VERIF_REPO"] = str(scratch / "repo")
    else:
        subprocess.check_call(["git", "-C", "/repo", "apply", str(d / "patch.diff")])
    verdicts = {}
    try:
        for p in (["C06", "C13", "C15", "C16", "C17"] if all_checks else [prop]):
            t0 = time.time()
            proc = subprocess.run([str(V / "check"), p, "quick"], env=env, cwd=str(V), capture_output=True, text=True)
            sigs = sorted({l.split("sig=")[1].split()[0] for l in proc.stdout.splitlines() if "sig=" in l and not l.startswith("KNOWN")})
            verdicts[p] = {"exit": proc.returncode, "sigs": sigs, "wall_s": round(time.time() - t0),
                           "first_line": next((l for l in proc.stdout.splitlines() if l.startswith(("  run=", "HARNESS"))), "")[:300]}
    finally:
        if not use_scratch:
            subprocess.check_call(["git", "-C", "/repo", "checkout", "--", "."])
        shutil.rmtree(scratch, ignore_errors=True)
    meta["check_results"] = verdicts
    meta["caught_by_own_property_check"] = verdicts[prop]["exit"] == 1
    (d / "meta.json").write_text(json.dumps(meta, indent=1))
    print(f"{d.name:8s} {prop} " + " ".join(f"{p}:exit{v['exit']}({v['wall_s']}s){v['sigs'][:3]}" for p, v in verdicts.items()), flush=True)
