#!/venv/bin/python
"""Generate the reaction pool with qrules (offline) and store it as JSON.

Usage: /venv/bin/python tools/gen_reactions.py [--force] [tag ...]
Writes /verif/data/reactions/<tag>.json plus index.json (qrules version, metadata).
The JSON files are committed; MANIFEST.setup_cmd calls this script, which only
regenerates when a file is missing or index.json names another qrules version.
"""
from __future__ import annotations

import json
import os
import sys
import time
from importlib.metadata import version
from pathlib import Path

HERE = Path(__file__).resolve().parent.parent
OUT = HERE / "data" / "reactions"

SPECS = {
    "gpp_h": dict(initial_state=("J/psi(1S)", [-1, +1]), final_state=["gamma", "pi0", "pi0"],
                  allowed_intermediate_particles=["f(0)(980)", "f(0)(1500)"],
                  allowed_interaction_types=["strong", "EM"], formalism="helicity"),
    "gpp_c": dict(initial_state=("J/psi(1S)", [-1, +1]), final_state=["gamma", "pi0", "pi0"],
                  allowed_intermediate_particles=["f(0)(980)", "f(0)(1500)"],
                  allowed_interaction_types=["strong", "EM"], formalism="canonical-helicity"),
    "gpp1_h": dict(initial_state=("J/psi(1S)", [-1, +1]), final_state=["gamma", "pi0", "pi0"],
                   allowed_intermediate_particles=["f(0)(980)"],
                   allowed_interaction_types=["strong", "EM"], formalism="helicity"),
    "lc_h": dict(initial_state=("Lambda(c)+", [-0.5, +0.5]), final_state=["p", "K-", "pi+"],
                 allowed_intermediate_particles=["Lambda(1405)", "Delta(1232)++", "K*(892)0"],
                 formalism="helicity"),
    "lc_c": dict(initial_state=("Lambda(c)+", [-0.5, +0.5]), final_state=["p", "K-", "pi+"],
                 allowed_intermediate_particles=["Lambda(1405)", "Delta(1232)++", "K*(892)0"],
                 formalism="canonical-helicity"),
    "j3pi_h": dict(initial_state=("J/psi(1S)", [-1, +1]), final_state=["pi0", "pi+", "pi-"],
                   allowed_intermediate_particles=["rho(770)"], formalism="helicity"),
    "ksp_h": dict(initial_state=("J/psi(1S)", [-1, +1]), final_state=["K0", "Sigma+", "p~"],
                  allowed_intermediate_particles=["Sigma(1750)", "N(1650)"],
                  allowed_interaction_types=["strong"], formalism="helicity"),
    "ppg_h": dict(initial_state=("J/psi(1S)", [+1]), final_state=["pi0", "pi0", "gamma"],
                  allowed_intermediate_particles=["omega(782)"],
                  allowed_interaction_types=["strong", "EM"], formalism="helicity"),
    "ppg_c": dict(initial_state=("J/psi(1S)", [+1]), final_state=["pi0", "pi0", "gamma"],
                  allowed_intermediate_particles=["omega(782)"],
                  allowed_interaction_types=["strong", "EM"], formalism="canonical-helicity"),
    "psi4_h": dict(initial_state=("psi(2S)", [+1, -1]), final_state=["gamma", "eta", "pi+", "pi-"],
                   allowed_intermediate_particles=["chi(c1)(1P)", "a(0)(980)"],
                   allowed_interaction_types=["strong", "EM"], max_angular_momentum=1,
                   formalism="helicity"),
    "kkpi_h": dict(initial_state=("J/psi(1S)", [-1, +1]), final_state=["K+", "K-", "pi0"],
                   allowed_intermediate_particles=["K*(892)"], formalism="helicity"),
    "dkpp_h": dict(initial_state="D+", final_state=["K-", "pi+", "pi+"],
                   allowed_intermediate_particles=["K*(892)", "K(0)*(1430)"], formalism="helicity"),
    "etac_c": dict(initial_state="eta(c)(1S)", final_state=["K+", "K-", "eta"],
                   allowed_intermediate_particles=["a(0)(980)", "f(0)(980)", "K(0)*(1430)"],
                   formalism="canonical-helicity"),
    "d3pi_h": dict(initial_state="D0", final_state=["K~0", "K+", "K-"],
                   allowed_intermediate_particles=["a(0)(980)", "phi(1020)"],
                   formalism="helicity"),
}


def describe(reaction) -> dict:
    topologies = sorted({t.topology for t in reaction.transitions},
                        key=lambda t: sorted((i, e.originating_node_id or -1, e.ending_node_id or -1)
                                             for i, e in t.edges.items()))
    resonances = sorted({s.particle.name for t in reaction.transitions
                         for s in t.intermediate_states.values()})
    n_decays = len({(i, n) for i, t in enumerate(reaction.transitions) for n in t.topology.nodes})
    return {
        "n_transitions": len(reaction.transitions),
        "n_topologies": len(topologies),
        "n_nodes": len(reaction.transitions[0].topology.nodes),
        "n_decay_slots": n_decays,
        "resonances": resonances,
        "initial": {str(k): v.name for k, v in reaction.initial_state.items()},
        "final": {str(k): v.name for k, v in reaction.final_state.items()},
        "formalism": reaction.formalism,
    }


def main(argv: list[str]) -> int:
    import qrules

    force = "--force" in argv
    tags = [a for a in argv if not a.startswith("--")] or list(SPECS)
    OUT.mkdir(parents=True, exist_ok=True)
    index_path = OUT / "index.json"
    index = {"qrules": version("qrules"), "reactions": {}}
    if index_path.exists():
        old = json.loads(index_path.read_text())
        if old.get("qrules") == index["qrules"]:
            index = old
        else:
            force = True
    for tag in tags:
        path = OUT / f"{tag}.json"
        if path.exists() and tag in index["reactions"] and not force:
            continue
        t0 = time.time()
        spec = dict(SPECS[tag])
        init = spec.pop("initial_state")
        reaction = qrules.generate_transitions(
            initial_state=init if isinstance(init, str) else [init],
            number_of_threads=1,
            **spec,
        )
        qrules.io.write(reaction, str(path))
        index["reactions"][tag] = describe(reaction)
        index["reactions"][tag]["gen_s"] = round(time.time() - t0, 1)
        print(f"{tag}: {index['reactions'][tag]}", flush=True)
        index_path.write_text(json.dumps(index, indent=1, sort_keys=True))
    index_path.write_text(json.dumps(index, indent=1, sort_keys=True))
    return 0


if __name__ == "__main__":
    sys.exit(main(sys.argv[1:]))
