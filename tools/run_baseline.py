#!/usr/bin/env python3
"""Run the repository's pinned suite (guard off) and compare with /root/.vp/BASELINE.json."""
import json, subprocess, sys, tempfile, os
import xml.etree.ElementTree as ET

repo = sys.argv[1] if len(sys.argv) > 1 else "/repo"
base = json.load(open("/root/.vp/BASELINE.json"))
with tempfile.TemporaryDirectory() as tmp:
    xml = os.path.join(tmp, "junit.xml")
    env = dict(os.environ)
    env.pop("AMPFORM_VERIF", None)
    if repo != "/repo":
        env["PYTHONPATH"] = os.path.join(repo, "src")
    cmd = ["/venv/bin/python", "-m", "pytest", "-q", "-p", "no:cacheprovider", "--timeout=900",
           "--continue-on-collection-errors", f"--junitxml={xml}"]
    proc = subprocess.run(cmd, cwd=repo, env=env, stdout=subprocess.PIPE, stderr=subprocess.STDOUT, text=True)
    passed = set()
    failed = set()
    for case in ET.parse(xml).getroot().iter("testcase"):
        name = f"{case.get('classname')}::{case.get('name')}"
        bad = any(child.tag in ("failure", "error") for child in case)
        skipped = any(child.tag == "skipped" for child in case)
        if bad:
            failed.add(name)
        elif not skipped:
            passed.add(name)
stable = set(base["stable_pass"])
missing = sorted(stable - passed)
print(proc.stdout.strip().splitlines()[-1])
print(f"stable baseline: {len(stable)}; passed now: {len(stable & passed)}; missing: {len(missing)}")
for m in missing[:20]:
    print("  MISSING", m)
sys.exit(1 if missing else 0)
