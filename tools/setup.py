#!/venv/bin/python
"""MANIFEST.setup_cmd: verify the offline environment and the committed data."""
import json, subprocess, sys
from importlib.metadata import version
from pathlib import Path

V = Path(__file__).resolve().parent.parent
import sympy, qrules  # noqa: F401,E401
sys.path.insert(0, "/repo/src")
import ampform  # noqa: E402

index = V / "data" / "reactions" / "index.json"
regen = not index.exists() or json.loads(index.read_text()).get("qrules") != version("qrules")
if regen:
    subprocess.check_call([sys.executable, str(V / "tools" / "gen_reactions.py"), "--force"])
for d in ("evidence", "replays"):
    (V / d).mkdir(exist_ok=True)
print("setup ok: sympy", sympy.__version__, "qrules", version("qrules"), "ampform from", ampform.__file__)
