#!/usr/bin/env python3
"""Print the markdown table of seeded changes and the checks that catch them (for DESIGN.md)."""
import json
from pathlib import Path

V = Path(__file__).resolve().parent.parent
print("| id | property | change (what it needs to manifest) | caught by | signatures |")
print("|---|---|---|---|---|")
for d in sorted((V / "seeded").iterdir()):
    m = json.loads((d / "meta.json").read_text())
    res = m.get("check_results", {})
    caught = [p for p, v in res.items() if v["exit"] == 1]
    sigs = sorted({s for v in res.values() for s in v["sigs"]})[:4]
    summary = " ".join(str(m.get("summary", "")).split())[:150]
    needs = " ".join(str(m.get("needs_to_manifest", "")).split())[:170]
    print(f"| {d.name} | {m['property']} | {summary} — *needs:* {needs} | {', '.join(caught) or 'MISSED'} | {', '.join(f'`{s}`' for s in sigs)} |")
