#!/usr/bin/env python3
"""Regenerate MANIFEST.json (kept as a script so the manifest stays consistent)."""
import json, subprocess
from pathlib import Path

V = Path(__file__).resolve().parent.parent
NA = {
 "C01":"closure of a model's symbol dictionaries is a pure function of (reaction, configuration); no schedule, fault, I/O or history to simulate (history-dependent breakage of it is decided under C06)",
 "C02":"numeric identity between intensity and helicity formula at sample points: pure function of its input, nothing for a simulator to schedule or fault",
 "C03":"sign algebra of parity-partner amplitudes: pure function of the reaction",
 "C04":"rotation invariance of a numeric function of four-momenta: pure function",
 "C05":"aligned vs unaligned intensity at events: pure function of its input",
 "C07":"meaning of kinematic variables per topology and event: pure function; seed/order dependence of the merged dictionary is decided under C06",
 "C08":"Lorentz-group identities of matrix expressions: pure algebra",
 "C09":"unitarity/symmetry of formulated T-matrices at numeric points: pure function",
 "C10":"F-vector equation and argument forwarding: the functools.cache there memoises a pure function and the statement does not quantify over histories",
 "C11":"identities between phase-space-factor variants: pure function",
 "C12":"normalisation identities / builder API vs function API: pure function",
 "C14":"algebraic laws of expression classes (subs/doit/eq/hash): pure function of its input",
 "C18":"PoolSum denotes the finite sum: pure function",
 "C19":"DPD angle geometry at Dalitz points: pure function",
 "C20":"Kibble/Kallen classification of three-body kinematics: pure function",
}
CHECKS = {
 "C16": dict(
   technique="deterministic simulation: seeded scheduler that resumes one simulated process (baton-passing thread or pipe-gated fork()ed process) at a time at every file-system seam of the real perform_cached_doit on tmpfs, with kill/torn-write/ENOSPC/legacy-writer/hash-seed faults; thorough adds directed sweeps over every kill point and every single-pre-emption schedule; ddmin-shrunk JSON replays",
   text="Seeded exploration of interleavings, crash points (every seam and any byte prefix), injected write errors, directory carry-over and three kinds of hash-seed configuration over the real cache code; every completed call must equal doit() and, once faults stop, one more call per expression must succeed under every hash-seed configuration used. The thorough tier first enumerates, as directed fault placement, every scheduler step of every single-writer call as kill point (current and pinned-protocol writer) and every one-pre-emption schedule of two callers of equal or colliding keys, then samples. Sampling, not proof: evidence that no schedule/fault sequence of the generated shape breaks the property.",
   ref="DESIGN.md §3",
   note="Simulated processes are threads or real forked processes resumed one at a time; kill = park + close fds or SIGKILL; uncontrolled parallel execution and power loss after close/rename are not modelled; directory contents limited to what some (pinned or current) perform_cached_doit could leave behind; canon/N digests and tmpfs rename atomicity trusted."),
 "C06": dict(
   technique="deterministic simulation: seeded op histories over several builders in forked pristine processes under varied PYTHONHASHSEED, with callback-raise/interrupt/cache-eviction faults; refinement against a pristine-process reference",
   text="Each formulate() in a seeded history (1-3 processes, 1-3 interleaved builders, injected callback failures, interrupts at arbitrary ampform lines, cache evictions, hash-seed changes) is compared with the same observable configuration formulated once in a pristine fork, and pristine references are compared across hash seeds. Sampling over a fixed reaction pool.",
   ref="DESIGN.md §4.2",
   note="A fork of a never-used zygote stands for a fresh interpreter (cross-checked against newly exec'ed interpreters in the thorough tier); equal observable configuration obliges equal models; canonical (Dummy-strict) digests trusted; exception outcomes compared by class."),
 "C15": dict(
   technique="deterministic simulation: writer process -> pickle on simulated disk -> restart -> reader processes under other PYTHONHASHSEED and with their own history; digest/==/numeric oracle",
   text="Seeded histories in which a writer process dumps formulated models (C06 configuration space) and members of a pool covering every expression class of the library, loads them back in the same process, and 1-2 reader processes forked from pristine zygotes under other hash seeds, optionally after formulating other models, load them again; equality per attribute (same process), canonical digest and sampled 30-digit numeric value (other process).",
   ref="DESIGN.md §4.3",
   note="Fork of a never-used zygote stands for a fresh interpreter; unfolded doit() results compared through the reconstruction N; canonical digests trusted; numeric identity sampled."),
 "C13": dict(
   technique="deterministic simulation: seeded assign/re-assign/formulate histories on the DynamicsSelector with recording and raising probe builders at the user-callback seam; sequential reference model",
   text="Seeded op histories (all four selection forms, re-assignments, unknown names, deprecated setter, injected callback failures) on pool reactions incl. identical particles, several topologies and a 4-body cascade; after each formulate() the set of probe calls (owner, parent, invariant-mass symbols of parent and unordered daughters, L where specified), the probe factors of every chain component, the dynamics-free structure of every chain and the library builders' mass/width/radius defaults are compared with a ~60-line reference model.",
   ref="DESIGN.md §5.1",
   note="Reference model and the topology-only derivation of node variables are harness code; chains created by identical-particle symmetrisation take the owner of the same decay up to ids; inputs limited to the reaction pool."),
 "C17": dict(
   technique="deterministic simulation (history-only, no fault space): seeded rename/set-parameter histories over a pool of root and derived models; reference = root + composed map + tracked values",
   text="Seeded histories of renames (fresh, swap, chain, merge, kinematic-variable, unknown, empty), parameter assignments by symbol/name/index and checks over 1-3 root models and everything derived from them; every derived model is compared with its root under the composed map (renaming-aware digest with numeric fallback for SymPy's name-dependent canonicalisation), assumptions, closure, carried-over values, aliasing between slots, and sampled numeric identity.",
   ref="DESIGN.md §5.2",
   note="Degenerate use of the technique (one actor, no faults), claimed for its history/aliasing dimension; maps restricted to the defined domain; merging maps decided numerically."),
}
checks = []
for pid, c in CHECKS.items():
    checks.append({
        "property_id": pid,
        "quick_cmd": f"./check {pid} quick",
        "thorough_cmd": f"./check {pid} thorough",
        "evidence_file": f"/verif/evidence/{pid}.json",
        "replay_cmd_template": "./check replay {path}",
        "engine": "simverif",
        "level_claimed": {"category": "exploration", "text": c["text"], "design_ref": c["ref"]},
        "level_note": c["note"],
        "technique": c["technique"],
    })
pending = {"C13","C15","C17"} - set(CHECKS)
m = {"version": 1,
 "setup_cmd": "/venv/bin/python tools/setup.py",
 "hooks": {"guard": "AMPFORM_VERIF", "enable": "no hooks needed: all seams are installed from outside by assignment to module attributes (builtins.open, io.open, os.*, tempfile, uuid, time) inside throw-away forked processes", "baseline_off_cmd": "cd /repo && /venv/bin/python -m pytest -ra -q -p no:cacheprovider --timeout=900 --continue-on-collection-errors", "source_commits": [], "add_only": True},
 "engines": [{"name": "simverif", "path": "/verif/simverif", "serves_properties": sorted(CHECKS), "kind_free_text": "deterministic simulation with fault injection: zygote/fork process simulation, seeded choice traces, baton-passing file-system seams, ddmin shrinking, JSON replay"}],
 "checks": checks,
 "notes": "VERIF_SEED selects the seed; VERIF_BUDGET_S / VERIF_RUNS / VERIF_WORKERS bound a run. Exit 2/3 = harness error / nondeterminism (nothing claimed).",
 "not_applicable": [{"property_id": k, "reason": v} for k, v in NA.items()]
   + [{"property_id": k, "reason": "claimable by deterministic simulation (DESIGN.md §4.3/§5); check under construction, not yet registered"} for k in sorted(pending)],
}
(V / "MANIFEST.json").write_text(json.dumps(m, indent=1))
print("manifest written:", [c["property_id"] for c in checks])
