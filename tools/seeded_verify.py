#!/usr/bin/env python3
"""Confirm a seeded change independently and file it under /verif/seeded/<name>/.

usage: seeded_verify.py <name> <property> <change.diff> <demo.py> <meta.json>
Steps (in a scratch git worktree of /repo outside /repo and /verif, removed afterwards):
  demo on unchanged code must pass; patch must apply; demo with patch must fail;
  the pinned suite with the patch must equal the baseline.
"""
import json, os, shutil, subprocess, sys
from pathlib import Path

V = Path(__file__).resolve().parent.parent
name, prop, diff, demo, meta = sys.argv[1:6]
wt = Path(f"/tmp/seedwt-{name}")
subprocess.run(["git", "-C", "/repo", "worktree", "remove", "--force", str(wt)], capture_output=True)
subprocess.check_call(["git", "-C", "/repo", "worktree", "add", "--detach", "-q", str(wt), "HEAD"])
env = dict(os.environ, PYTHONPATH=str(wt / "src"), PYTHONDONTWRITEBYTECODE="1")
env.pop("PYTHONHASHSEED", None)
result = {"name": name, "property": prop}
try:
    def run_demo():
        p = subprocess.run(["/venv/bin/python", demo], env=env, cwd=str(wt), capture_output=True, text=True, timeout=900)
        return p.returncode, (p.stdout + p.stderr)[-600:]
    rc0, out0 = run_demo()
    result["demo_unchanged_exit"] = rc0
    ap = subprocess.run(["git", "-C", str(wt), "apply", diff], capture_output=True, text=True)
    result["applies"] = ap.returncode == 0
    rc1, out1 = run_demo()
    result["demo_changed_exit"] = rc1
    result["demo_changed_tail"] = out1[-300:]
    sp = subprocess.run([sys.executable, str(V / "tools" / "run_baseline.py"), str(wt)], capture_output=True, text=True)
    result["suite_same_as_baseline"] = sp.returncode == 0
    result["suite_tail"] = sp.stdout.strip().splitlines()[-1] if sp.stdout.strip() else ""
finally:
    subprocess.run(["git", "-C", "/repo", "worktree", "remove", "--force", str(wt)], capture_output=True)
    shutil.rmtree(wt, ignore_errors=True)
ok = result.get("demo_unchanged_exit") == 0 and result.get("applies") and result.get("demo_changed_exit") not in (0, None) \
    and result.get("suite_same_as_baseline")
result["confirmed"] = bool(ok)
if ok:
    dest = V / "seeded" / name
    dest.mkdir(parents=True, exist_ok=True)
    shutil.copy(diff, dest / "patch.diff")
    shutil.copy(demo, dest / "demo.py")
    m = json.load(open(meta))
    m.update({"property": prop, "confirmed_by": "tools/seeded_verify.py in a scratch worktree: demo exit 0 unchanged / non-zero patched; pinned suite equals baseline with the patch",
              "verification": result, "source": "independent sub-agent given only the property text and a scratch worktree"})
    (dest / "meta.json").write_text(json.dumps(m, indent=1))
print(json.dumps(result))
