#!/usr/bin/env python3
"""Run the checks against behaviour-preserving refactorings under /verif/benign/<id>/ (expect silence).

Each directory holds patch.diff and meta.json {"properties": [...]}.  The patch is applied to a
scratch export of /repo's HEAD under /dev/shm; evidence/replays go to the scratch directory.
usage: benign_run.py [name ...]
"""
import json, os, shutil, subprocess, sys, time
from pathlib import Path

V = Path(__file__).resolve().parent.parent
names = [a for a in sys.argv[1:] if not a.startswith("--")]
bad = 0
for d in sorted((V / "benign").iterdir()):
    if not (d / "patch.diff").exists() or (names and d.name not in names):
        continue
    meta = json.loads((d / "meta.json").read_text())
    scratch = Path(f"/dev/shm/simverif-benign-{os.getpid()}-{d.name}")
    shutil.rmtree(scratch, ignore_errors=True)
    (scratch / "repo").mkdir(parents=True)
    subprocess.check_call(f"git -C /repo archive HEAD | tar -x -C {scratch}/repo", shell=True)
    subprocess.check_call(["git", "apply", "--directory", str(scratch / "repo").lstrip("/"), "--unsafe-paths",
                           str(d / "patch.diff")], cwd="/")
    env = dict(os.environ, VERIF_REPO=str(scratch / "repo"), VERIF_EVIDENCE_DIR=str(scratch / "evidence"),
               VERIF_REPLAY_DIR=str(scratch / "replays"))
    verdicts = {}
    for p in meta["properties"]:
        t0 = time.time()
        proc = subprocess.run([str(V / "check"), p, "quick"], env=env, cwd=str(V), capture_output=True, text=True)
        sigs = sorted({l.split("sig=")[1].split()[0] for l in proc.stdout.splitlines() if "sig=" in l})
        first = next((l for l in proc.stdout.splitlines() if l.startswith(("  run=", "HARNESS"))), "")[:400]
        verdicts[p] = {"exit": proc.returncode, "sigs": sigs, "wall_s": round(time.time() - t0), "first_line": first}
        if proc.returncode != 0:
            bad += 1
            keep = V / "benign" / d.name / f"alarm-{p}.log"
            keep.write_text(proc.stdout[-6000:])
    shutil.rmtree(scratch, ignore_errors=True)
    meta["check_results"] = verdicts
    (d / "meta.json").write_text(json.dumps(meta, indent=1))
    print(f"{d.name:10s} " + " ".join(f"{p}:exit{v['exit']}({v['wall_s']}s){v['sigs'][:3]}" for p, v in verdicts.items()), flush=True)
sys.exit(1 if bad else 0)
