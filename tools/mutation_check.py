#!/usr/bin/env python3
"""Sensitivity self-test: apply one mutant to a scratch copy of /repo, expect a VIOLATION.

usage: tools/mutation_check.py [--suite] [name ...]
The scratch copy lives under /dev/shm and is removed afterwards; evidence and replay
files of these runs go to the scratch directory, never to /verif/evidence.
"""
import os, shutil, subprocess, sys, time
from pathlib import Path

V = Path(__file__).resolve().parent.parent
sys.path.insert(0, str(V / "tools"))
from mutants import EXTRA_PREAMBLE, MUTANTS  # noqa: E402


def main(argv):
    suite = "--suite" in argv
    names = [a for a in argv if not a.startswith("--")]
    results = []
    for name, prop, rel, old, new in MUTANTS:
        if names and name not in names:
            continue
        scratch = Path(f"/dev/shm/simverif-mutant-{os.getpid()}-{name}")
        shutil.rmtree(scratch, ignore_errors=True)
        (scratch / "repo").mkdir(parents=True)
        subprocess.check_call(f"git -C /repo archive HEAD | tar -x -C {scratch}/repo", shell=True)
        path = scratch / "repo" / rel
        text = path.read_text()
        if old not in text:
            results.append((name, prop, "STALE (pattern not found)", 0))
            shutil.rmtree(scratch, ignore_errors=True)
            continue
        text = text.replace(old, new, 1)
        if name in EXTRA_PREAMBLE:
            rel2, o2, n2 = EXTRA_PREAMBLE[name]
            assert rel2 == rel and o2 in text
            text = text.replace(o2, n2, 1)
        path.write_text(text)
        env = dict(os.environ, VERIF_REPO=str(scratch / "repo"), VERIF_EVIDENCE_DIR=str(scratch / "evidence"),
                   VERIF_REPLAY_DIR=str(scratch / "replays"))
        if prop != "C16":  # C16 batches open with ~310 directed runs; the random part lies behind them
            env.setdefault("VERIF_RUNS", "320")
        t0 = time.time()
        proc = subprocess.run([str(V / "check"), prop, "quick"], env=env, cwd=str(V),
                              stdout=subprocess.PIPE, stderr=subprocess.STDOUT, text=True)
        lines = [l for l in proc.stdout.splitlines() if l.startswith(("VIOLATION", "HARNESS", "OK", "KNOWN"))]
        verdict = "CAUGHT" if proc.returncode == 1 and any(l.startswith("VIOLATION") for l in lines) else \
            f"MISSED (exit {proc.returncode})"
        suite_note = ""
        if suite:
            sp = subprocess.run([sys.executable, str(V / "tools" / "run_baseline.py"), str(scratch / "repo")],
                                stdout=subprocess.PIPE, stderr=subprocess.STDOUT, text=True)
            suite_note = " suite:" + ("same-as-baseline" if sp.returncode == 0 else "CHANGED " + sp.stdout.strip().splitlines()[-1])
        sigs = sorted({l.split("sig=")[1].split()[0] for l in proc.stdout.splitlines() if "sig=" in l})
        results.append((name, prop, verdict + suite_note, round(time.time() - t0)))
        print(f"{name:42s} {prop} {verdict}{suite_note} {time.time()-t0:5.0f}s sigs={sigs[:4]}", flush=True)
        if proc.returncode not in (0, 1):
            for line in [l for l in proc.stdout.splitlines() if "HARNESS" in l][:3]:
                print("    " + line[:300], flush=True)
        shutil.rmtree(scratch, ignore_errors=True)
    bad = [r for r in results if not r[2].startswith("CAUGHT")]
    print(f"{len(results) - len(bad)}/{len(results)} mutants caught")
    return 1 if bad else 0


if __name__ == "__main__":
    sys.exit(main(sys.argv[1:]))
