"""Hand-written mutants for the sensitivity self-test (tools/mutation_check.py).

Each mutant is (name, property, relative file, old text, new text).  All of them keep
the pinned test suite green (checked once with tools/mutation_check.py --suite).
"""

HEL = "src/ampform/helicity/__init__.py"
SYM = "src/ampform/sympy/__init__.py"
DEC = "src/ampform/sympy/_decorator.py"
KIN = "src/ampform/kinematics/__init__.py"

MUTANTS = [
    # ---- C16 ------------------------------------------------------------------------
    ("c16_revert_atomic_write", "C16", SYM,
     '''    fd, tmp_filename = tempfile.mkstemp(
        dir=filename.parent, prefix=f"{filename.stem}-", suffix=".tmp"
    )
    try:
        with os.fdopen(fd, "wb") as f:
            pickle.dump((unevaluated_expr, unfolded_expr), f)
        os.replace(tmp_filename, filename)
    except BaseException:
        os.unlink(tmp_filename)
        raise
''',
     '''    with open(filename, "wb") as f:
        pickle.dump((unevaluated_expr, unfolded_expr), f)
'''),
    ("c16_drop_key_comparison", "C16", SYM,
     """        is_entry_for_expr = isinstance(unfolded_expr, sp.Basic) and bool(
            cached_expr == unevaluated_expr
        )
""",
     "        is_entry_for_expr = isinstance(unfolded_expr, sp.Basic)\n"),
    ("c16_compare_by_str", "C16", SYM,
     "            cached_expr == unevaluated_expr\n", "            str(cached_expr) == str(unevaluated_expr)\n"),
    ("c16_compare_by_hash", "C16", SYM,
     "            cached_expr == unevaluated_expr\n", "            hash(cached_expr) == hash(unevaluated_expr)\n"),
    ("c16_revert_comparison_inside_try", "C16", SYM,
     """        is_entry_for_expr = isinstance(unfolded_expr, sp.Basic) and bool(
            cached_expr == unevaluated_expr
        )
    except FileNotFoundError:
        return None
    except Exception:  # noqa: BLE001
        _LOGGER.warning(f"Could not read cached expression file {filename}")
        return None
    if not is_entry_for_expr:
        return None
""",
     """    except FileNotFoundError:
        return None
    except Exception:  # noqa: BLE001
        _LOGGER.warning(f"Could not read cached expression file {filename}")
        return None
    if not isinstance(unfolded_expr, sp.Basic) or cached_expr != unevaluated_expr:
        return None
"""),
    ("c16_narrow_except", "C16", SYM,
     "    except Exception:  # noqa: BLE001\n        _LOGGER.warning(f\"Could not read cached",
     "    except pickle.UnpicklingError:\n        _LOGGER.warning(f\"Could not read cached"),
    ("c16_shared_temp_name", "C16", SYM,
     '''    fd, tmp_filename = tempfile.mkstemp(
        dir=filename.parent, prefix=f"{filename.stem}-", suffix=".tmp"
    )
    try:
        with os.fdopen(fd, "wb") as f:''',
     '''    tmp_filename = f"{filename}.tmp"
    try:
        with open(tmp_filename, "wb") as f:'''),
    ("c16_unlink_then_rewrite", "C16", SYM,
     '''        _LOGGER.warning(f"Could not read cached expression file {filename}")
        return None''',
     '''        _LOGGER.warning(f"Could not read cached expression file {filename}")
        os.unlink(filename)
        return None'''),
    ("c16_memo_by_filename", "C16", SYM,
     '''    unfolded_expr = _load_cached_doit(filename, unevaluated_expr)
    if unfolded_expr is not None:
        return unfolded_expr
''',
     '''    if filename in _MEMO:
        return _MEMO[filename]
    unfolded_expr = _load_cached_doit(filename, unevaluated_expr)
    if unfolded_expr is not None:
        _MEMO[filename] = unfolded_expr
        return unfolded_expr
'''),
    # ---- C06 ------------------------------------------------------------------------
    ("c06_revert_dpd_copy", "C06", HEL,
     '''        alignment_symbols = dict(
            self.config.spin_alignment.define_symbols(self.reaction)
        )
''',
     "        alignment_symbols = self.config.spin_alignment.define_symbols(self.reaction)\n"),
    ("c06_revert_sorted_topologies", "C06", KIN,
     "for topology in sorted(self.__topologies, key=_get_topology_sorting_key):",
     "for topology in self.__topologies:"),
    ("c06_revert_sorted_spin_projections", "C06", HEL,
     "*((symbol, sorted(values)) for symbol, values in spin_projections.items()),",
     "*spin_projections.items(),"),
    ("c06_incomplete_reset", "C06", HEL,
     '''    def reset(self) -> None:
        self.parameter_defaults = {}
''',
     '''    def reset(self) -> None:
'''),
    ("c06_components_survive_failed_formulate", "C06", HEL,
     '''    def formulate(self) -> HelicityModel:
        self.__ingredients.reset()
        main_intensity = self.__formulate_top_expression()''',
     '''    def formulate(self) -> HelicityModel:
        main_intensity = self.__formulate_top_expression()'''),
    ("c06_revert_name_tiebreak", "C06", HEL,
     "key=lambda s: (natural_sorting(s.name), s.name))", "key=lambda s: natural_sorting(s.name))"),
    ("c06_revert_subsystem_converter", "C06", "src/ampform/helicity/align/dpd.py",
     "        converter=_to_subsystem_id, validator=in_({1, 2, 3})\n", "        validator=in_({1, 2, 3})\n"),
    # ---- C15 ------------------------------------------------------------------------
    ("c15_revert_shallow_newargs", "C15", DEC,
     "    return tuple(getattr(instance, field.name) for field in _get_fields(instance))\n",
     "    import dataclasses\n\n    return dataclasses.astuple(instance)\n"),
    ("c15_drop_non_sympy_attrs", "C15", DEC,
     "    cls.__getnewargs__ = _get_arguments  # type: ignore[assignment,method-assign]\n",
     "    cls.__getnewargs__ = lambda self: tuple(self.args)  # type: ignore[assignment,method-assign]\n"),
    # ---- C13 ------------------------------------------------------------------------
    ("c13_revert_identical_decay_lookup", "C13", HEL,
     '''        if builder is None:
            # transition that was created by permutating identical final state particles
            builder = _find_builder_for_identical_decay(self.dynamics, decay)
''', ""),
    ("c13_wrong_daughter_mass", "C13", HEL,
     "    child2_mass = get_invariant_mass_symbol(topology, decay.children[1].id)\n",
     "    child2_mass = get_invariant_mass_symbol(topology, decay.parent.id)\n"),
    ("c13_name_prefix_match", "C13", HEL,
     "            if decaying_particle.name == particle_name:\n",
     "            if decaying_particle.name.startswith(particle_name.split(\"(\")[0]):\n"),
    ("c13_l_from_first_node", "C13", HEL,
     "    angular_momentum: int | None = decay.interaction.l_magnitude\n",
     "    angular_momentum: int | None = transition.interactions[min(transition.interactions)].l_magnitude\n"),
    # ---- C17 ------------------------------------------------------------------------
    ("c17_revert_parameter_symbols", "C17", HEL,
     "        symbols |= {par for par in self.parameter_defaults if isinstance(par, sp.Symbol)}\n", ""),
    ("c17_components_not_renamed", "C17", HEL,
     '''            components={
                name: expr.xreplace(symbol_mapping)
                for name, expr in self.components.items()
            },
''', ""),
    ("c17_assumptions_dropped", "C17", HEL,
     "s: sp.Symbol(renames[s.name], **s.assumptions0) if s.name in renames else s",
     "s: sp.Symbol(renames[s.name], **({} if s.is_nonnegative else s.assumptions0)) if s.name in renames else s"),
    ("c17_values_by_position", "C17", HEL,
     '''            parameter_defaults={
                symbol_mapping.get(par, par): value  # type: ignore[call-overload]
                for par, value in self.parameter_defaults.items()
            },''',
     '''            parameter_defaults=dict(
                zip(
                    sorted(
                        (symbol_mapping.get(par, par) for par in self.parameter_defaults),
                        key=lambda s: natural_sorting(s.name),
                    ),
                    self.parameter_defaults.values(),
                )
            ),'''),
]

EXTRA_PREAMBLE = {
    "c16_memo_by_filename": (SYM, "_LOGGER = logging.getLogger(__name__)\n", "_LOGGER = logging.getLogger(__name__)\n_MEMO: dict = {}\n"),
}
