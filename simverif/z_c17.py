"""C17, zygote side: rename / set-parameter histories over a pool of derived models (DESIGN §5.2)."""

from __future__ import annotations

import random
from collections import abc

from . import canon
from . import z_common as zc

CFG = None
ATTRS = ("intensity", "amplitudes", "parameter_defaults", "kinematic_variables", "components")


def preload(cfg: str) -> dict:
    global CFG  # noqa: PLW0603
    CFG = cfg
    zc.load_reactions()
    zc.dynamics_registry()
    return {"reactions": sorted(zc.REACTIONS)}


# --------------------------------------------------------------------------- #
# renaming-aware digests
# --------------------------------------------------------------------------- #
def attr_digest(value, rename: dict | None = None):
    """Mappings are compared as mappings (the model re-sorts its dictionaries by name)."""
    c = canon.Canon(rename, sort_commutative=True)
    c.number_dummies(value)
    if isinstance(value, abc.Mapping):
        return sorted((c.d(k), c.d(v)) for k, v in value.items())
    return c.d(value)


def model_digest(model, rename: dict | None = None) -> dict:
    return {attr: attr_digest(getattr(model, attr), rename) for attr in ATTRS}


def plain_digest(model) -> str:
    """Order-preserving digest of everything incl. parameter values (for 'unchanged' checks)."""
    return canon.digest([getattr(model, attr) for attr in ATTRS])


def all_symbols(model) -> set:
    import sympy as sp  # noqa: PLC0415

    out = set()

    def visit(obj):
        if isinstance(obj, sp.Basic):
            out.update(s for s in obj.free_symbols if isinstance(s, sp.Symbol))
        elif isinstance(obj, abc.Mapping):
            for k, v in obj.items():
                visit(k)
                visit(v)

    for attr in ATTRS:
        visit(getattr(model, attr))
    return out


def bound_symbol_names(model) -> list:
    """Names of Symbol atoms that are not free anywhere: summation indices, amplitude base labels."""
    import sympy as sp  # noqa: PLC0415

    atoms = set()

    def visit(obj):
        if isinstance(obj, sp.Basic):
            atoms.update(a for a in obj.atoms(sp.Symbol))
            for ib in obj.atoms(sp.IndexedBase):
                atoms.update(ib.label.atoms(sp.Symbol))
        elif isinstance(obj, abc.Mapping):
            for k, v in obj.items():
                visit(k)
                visit(v)

    for attr in ATTRS:
        visit(getattr(model, attr))
    free = {s.name for s in all_symbols(model)}
    return sorted({a.name for a in atoms} - free)


def undefined_symbols(model) -> set:
    """Symbols of the expression tree that are neither parameter nor kinematic variable."""
    defined = set(model.parameter_defaults) | set(model.kinematic_variables)
    used = set(model.expression.free_symbols)
    return {s.name for s in used - defined}


def evaluate(model, par_values: dict, kin_values: dict) -> str:
    import sympy as sp  # noqa: PLC0415

    expr = model.expression
    values = {}
    for s in expr.free_symbols:
        if s in par_values:
            values[s] = sp.nsimplify(par_values[s], rational=True) if not isinstance(par_values[s], complex) \
                else sp.nsimplify(par_values[s].real, rational=True) + sp.I * sp.nsimplify(par_values[s].imag, rational=True)
        elif s.name in kin_values:
            values[s] = kin_values[s.name]
        elif isinstance(s, sp.Symbol):
            # symbol that is neither parameter nor kinematic variable (C01's business): any fixed value
            values[s] = kin_value("undefined:" + s.name)
    number = sp.N(expr.xreplace(values).doit(), 30)
    if number.free_symbols or not number.is_number or number.atoms(sp.Indexed, sp.IndexedBase):
        return f"non-numeric:{sorted(str(x) for x in number.free_symbols)[:5]}:{str(number)[:60]}"
    re, im = number.as_real_imag()
    if not (re.is_Float or re.is_Rational) or not (im.is_Float or im.is_Rational):
        return f"non-numeric::{str(number)[:60]}"
    return f"{sp.N(re, 25)}|{sp.N(im, 25)}"


def same_number(a: str, b: str) -> bool:
    import sympy as sp  # noqa: PLC0415

    if a.startswith("non-numeric") or b.startswith("non-numeric"):
        return a == b
    (ar, ai), (br, bi) = (tuple(sp.Float(x, 25) for x in v.split("|")) for v in (a, b))
    scale = max(abs(ar), abs(br), abs(ai), abs(bi), sp.Float("1e-8"))
    return bool(abs(ar - br) <= scale * sp.Float("1e-12") and abs(ai - bi) <= scale * sp.Float("1e-12"))


def numerically_equal(a, b, name_map: dict) -> bool | None:
    """Decide ``a`` (root side, names mapped through ``name_map``) == ``b`` at a random point.

    Used only when the structural digests differ: SymPy canonicalises some nodes depending
    on the *names* of the symbols (Abs(x - y) vs Abs(y - x), cos, acos(-x) -> pi - acos(x)),
    which a renaming may legitimately trigger.  None = cannot be decided numerically.
    """
    import sympy as sp  # noqa: PLC0415

    def value_for(label: str):
        rng = random.Random("pt:" + label)
        return sp.Rational(rng.randrange(50, 300), 100) + (
            sp.I * sp.Rational(rng.randrange(-90, 90), 100) if label.startswith(("C_", "H_", "A^", "q_")) else 0)

    def evaluate_one(expr, mapping):
        expr = expr.doit()
        values = {}
        for atom in expr.atoms(sp.Indexed):
            values[atom] = value_for(str(atom))
        expr = expr.xreplace(values)
        values = {}
        for s in expr.free_symbols:
            if not isinstance(s, sp.Symbol):
                return None
            values[s] = value_for(mapping.get(s.name, s.name))
        number = sp.N(expr.xreplace(values), 30)
        if number.free_symbols or not number.is_number:
            return None
        return number

    try:
        x, y = evaluate_one(a, name_map), evaluate_one(b, {})
    except Exception:  # noqa: BLE001
        return None
    if x is None or y is None:
        return None
    scale = max(abs(x), abs(y), 1)
    return bool(abs(x - y) <= scale * sp.Float("1e-20"))


def kin_value(name: str):
    import sympy as sp  # noqa: PLC0415

    rng = random.Random("kin:" + name)
    if name.startswith(("phi", "zz_phi")):
        return sp.Rational(rng.randrange(-300, 300), 100)
    if name.startswith(("theta", "zeta", "\\zeta", "\\beta", "\\alpha", "\\gamma")):
        return sp.Rational(rng.randrange(10, 300), 100)
    return sp.Rational(rng.randrange(50, 400), 100)


# --------------------------------------------------------------------------- #
def _make_root(spec: dict):
    import ampform  # noqa: PLC0415

    builder = ampform.get_builder(zc.REACTIONS[spec["rx"]])
    try:
        if spec.get("align"):
            builder.config.spin_alignment = zc.make_alignment(spec["align"])
        builder.config.scalar_initial_state_mass = bool(spec.get("scalar"))
        builder.config.stable_final_state_ids = spec.get("stable")
        builder.config.use_helicity_couplings = bool(spec.get("helcoup"))
        if spec.get("dyn"):
            fn = zc.dynamics_registry()[spec["dyn"]]
            for name in sorted({d.parent.particle.name for d in builder.dynamics}):
                if name not in {s.name for s in builder.reaction.initial_state.values()}:
                    builder.dynamics.assign(name, fn)
        return builder.formulate(), None
    except Exception as exc:  # noqa: BLE001
        plain = ampform.get_builder(zc.REACTIONS[spec["rx"]])
        return plain.formulate(), f"{type(exc).__name__}: {str(exc)[:80]}"


def run_history(roots: list, ops: list, numeric: bool = False) -> dict:  # noqa: C901, PLR0912, PLR0915
    import sympy as sp  # noqa: PLC0415

    slots: list[dict] = []
    events: list[dict] = []
    mismatches: list[dict] = []
    probes = {"bound_name": 0, "collision": 0, "rename_on_collided": 0, "alias": 0, "merge": 0, "chain_or_swap": 0, "kinvar_rename": 0, "unknown_name": 0,
              "set_by_symbol": 0, "set_by_name": 0, "set_by_index": 0, "rename_of_renamed": 0,
              "param_not_in_expression_renamed": 0}
    fresh_counter = [0]
    shared_table: dict[str, str] = {}

    def flag(kind, detail, oi):
        mismatches.append({"kind": kind, "detail": f"op {oi}: {detail}"})

    # ---- roots, with distinct parameter values -------------------------------
    for ri, spec in enumerate(roots):
        model, fallback = _make_root(spec)
        rng = random.Random(f"root:{ri}:{spec['rx']}")
        sources = {}
        for i, par in enumerate(list(model.parameter_defaults)):
            old = model.parameter_defaults[par]
            if isinstance(old, complex):
                value = complex(round(rng.uniform(0.3, 1.7), 3), round(rng.uniform(-0.9, 0.9), 3))
            else:
                value = round(rng.uniform(0.3, 2.5), 3)
            model.parameter_defaults[par] = value
            sources[par.name] = [value]
        slots.append({"model": model, "root": ri, "map": {}, "merged": False, "sources": sources,
                      "depth": 0, "rx": spec["rx"], "fallback": fallback})
    root_models = [s["model"] for s in slots]
    root_symbols = [all_symbols(m) for m in root_models]
    root_undefined = [undefined_symbols(m) for m in root_models]

    def snapshot():
        return [(id(s["model"]), plain_digest(s["model"])) for s in slots]

    def same_up_to_canonicalisation(root, model, attr, cmap) -> bool:
        """Entry-wise numeric comparison of an attribute whose structural digests differ."""
        a, b = getattr(root, attr), getattr(model, attr)
        if not isinstance(a, abc.Mapping):
            a, b = {"": a}, {"": b}
        keys_a = {canon.digest(k, rename=cmap): k for k in a}
        keys_b = {canon.digest(k): k for k in b}
        if set(keys_a) != set(keys_b):
            return False
        for dk, ka in keys_a.items():
            va, vb = a[ka], b[keys_b[dk]]
            if attr_digest(va, cmap) == attr_digest(vb):
                continue
            verdict = numerically_equal(va, vb, cmap)
            if verdict is not True:
                return False
            probes["structure_differs_numerically_equal"] = probes.get("structure_differs_numerically_equal", 0) + 1
        return True

    def check_slot(si: int, oi: int, with_numeric: bool) -> None:
        slot = slots[si]
        model = slot["model"]
        root = root_models[slot["root"]]
        cmap = slot["map"]
        rx = slot["rx"]
        # expected parameter values (carried over / overridden), as a mapping name -> value
        actual = {p.name: v for p, v in model.parameter_defaults.items()}
        if not slot["merged"]:
            want = model_digest(root, cmap)
            got = model_digest(model)
            for attr in ATTRS:
                if attr == "parameter_defaults":
                    continue  # values differ by design (set ops); keys/values are checked below
                if want[attr] != got[attr] and not same_up_to_canonicalisation(root, model, attr, cmap):
                    flag(f"attr:{attr}", f"slot {si} ({rx}): '{attr}' is not the root's under the composed map {cmap}", oi)
            want_order = [canon.digest(k, rename=cmap) for k in root.parameter_defaults]
            got_order = [canon.digest(k) for k in model.parameter_defaults]
            if sorted(want_order) != sorted(got_order):
                flag("attr:parameter_defaults", f"slot {si} ({rx}): parameter keys are not the root's under {cmap}", oi)
            elif want_order != got_order:
                # parameter_defaults is an ordered mapping with lookup by index: a renaming keeps the order
                first = next(i for i, (w, g) in enumerate(zip(want_order, got_order)) if w != g)
                flag("order:parameter_defaults", f"slot {si} ({rx}): parameter order differs from the root's from position {first} on", oi)
            expected = {k: v[0] for k, v in slot["sources"].items()}
            if actual != expected and not slot.get("collided"):
                diff = {k: (actual.get(k), expected.get(k)) for k in set(actual) | set(expected)
                        if actual.get(k) != expected.get(k)}
                flag("values", f"slot {si} ({rx}): parameter values differ from carried-over/overridden ones: {dict(list(diff.items())[:3])}", oi)
        else:
            # merging maps: SymPy may combine like terms, so structure is not compared
            names_want = {cmap.get(s.name, s.name) for s in root_symbols[slot["root"]]}
            names_got = {s.name for s in all_symbols(model)}
            if names_want != names_got:
                flag("merge:names", f"slot {si} ({rx}): symbol names {sorted(names_got ^ names_want)[:6]} differ", oi)
            if set(actual) != set(slot["sources"]):
                flag("merge:keys", f"slot {si} ({rx}): parameter names {sorted(set(actual) ^ set(slot['sources']))[:5]} differ", oi)
            for name, value in actual.items():
                if name in slot["sources"] and value not in slot["sources"][name]:
                    flag("merge:values", f"slot {si}: value {value} of '{name}' is none of {slot['sources'][name]}", oi)
        # assumptions preserved and no second symbol of the same name with other assumptions
        by_name: dict[str, set] = {}
        for s in all_symbols(model):
            by_name.setdefault(s.name, set()).add(tuple(sorted(s.assumptions0.items())))
        want_by_name: dict[str, set] = {}
        for s in root_symbols[slot["root"]]:
            want_by_name.setdefault(cmap.get(s.name, s.name), set()).add(tuple(sorted(s.assumptions0.items())))
        if by_name != want_by_name:
            bad = sorted(n for n in set(by_name) | set(want_by_name) if by_name.get(n) != want_by_name.get(n))
            flag("assumptions", f"slot {si} ({rx}): symbols {bad[:4]} changed assumptions or identity", oi)
        # closure relative to the root (C01 preserved)
        want_undefined = {cmap.get(n, n) for n in root_undefined[slot["root"]]}
        if undefined_symbols(model) != want_undefined:
            flag("closure", f"slot {si} ({rx}): undefined symbols {sorted(undefined_symbols(model) ^ want_undefined)[:5]}", oi)
        if with_numeric and not slot.get("collided"):
            inverse_kin = {}
            for k in root.kinematic_variables:
                inverse_kin[cmap.get(k.name, k.name)] = kin_value(k.name)
            # a root variable takes the value of its image (two variables renamed to one name are one variable)
            kin_root = {k.name: inverse_kin[cmap.get(k.name, k.name)] for k in root.kinematic_variables}
            # symbols of the expression that are neither (zeta angles defined via kinematic variables etc.)
            root_values = {p: actual.get(cmap.get(p.name, p.name)) for p in root.parameter_defaults}
            lost = sorted(p.name for p, v in root_values.items() if v is None)
            if lost:
                flag("numeric:parameter-lost", f"slot {si} ({rx}): no value carried over for {lost[:4]}", oi)
            else:
                try:
                    number_slot = evaluate(model, dict(model.parameter_defaults.items()), inverse_kin)
                    number_root = evaluate(root, root_values, kin_root)
                except Exception as exc:  # noqa: BLE001
                    flag(f"numeric:raised:{type(exc).__name__}", f"slot {si} ({rx}): evaluation raised {str(exc)[:120]}", oi)
                else:
                    events.append({"i": oi, "op": "numeric", "slot": si, "value": number_slot})
                    if not same_number(number_slot, number_root):
                        flag("numeric", f"slot {si} ({rx}): {number_slot} != root with carried-over values {number_root}", oi)

    for oi, op in enumerate(ops):
        kind = op["op"]
        ev = {"i": oi, "op": kind}
        si = (len(slots) - 1) if op.get("slot") == -1 else op.get("slot", 0) % len(slots)
        slot = slots[si]
        model = slot["model"]
        before = snapshot()
        changed_ids: set[int] = set()
        if kind == "rename":
            params = sorted((p for p in model.parameter_defaults if isinstance(p, sp.Symbol)), key=lambda s: s.name)
            kinvars = sorted(model.kinematic_variables, key=lambda s: s.name)
            mk = op["kind"]
            picks = op.get("picks", [0])
            renames: dict[str, str] = {}
            merged_now = False
            collided_now = False
            if slot.get("collided"):
                probes["rename_on_collided"] += 1

            def fresh(prefix="zz"):
                fresh_counter[0] += 1
                return f"{prefix}_{{{fresh_counter[0]}}}"

            if mk == "fresh" and params:
                for pk in picks:
                    pool = params + kinvars if op.get("any") else params
                    renames[pool[pk % len(pool)].name] = fresh()
            elif mk == "swap" and len(params) >= 2:
                a, b = params[picks[0] % len(params)], params[picks[-1] % len(params)]
                if a.name != b.name:
                    renames = {a.name: b.name, b.name: a.name}
                    probes["chain_or_swap"] += 1
            elif mk == "chain" and len(params) >= 2:
                a, b = params[picks[0] % len(params)], params[picks[-1] % len(params)]
                if a.name != b.name:
                    renames = {a.name: b.name, b.name: fresh()}
                    probes["chain_or_swap"] += 1
            elif mk == "merge" and len(params) >= 2:
                a = params[picks[0] % len(params)]
                same = [p for p in params if p.assumptions0 == a.assumptions0 and p.name != a.name
                        and isinstance(model.parameter_defaults[p], type(model.parameter_defaults[a]))]
                if same:
                    b = same[picks[-1] % len(same)]
                    renames = {a.name: b.name}
                    merged_now = True
                    probes["merge"] += 1
            elif mk == "kinvar" and kinvars:
                k = kinvars[picks[0] % len(kinvars)]
                renames = {k.name: fresh("zz_phi" if k.name.startswith("phi") else "zzk")}
                probes["kinvar_rename"] += 1
            elif mk == "unknown":
                renames = {"no_such_symbol_xyz": fresh()}
                probes["unknown_name"] += 1
            elif mk == "bound":
                # bookkeeping symbols (summation indices, amplitude labels) are not symbols of the model
                names = bound_symbol_names(model)
                if names:
                    source = names[picks[0] % len(names)]
                    target = names[picks[-1] % len(names)] if op.get("onto_bound") and len(names) > 1 else fresh()
                    if target != source:
                        renames = {source: target}
                        probes["bound_name"] += 1
            elif mk == "collide" and len(params) >= 2:
                # onto the name of an existing symbol with other assumptions: two symbols share a name
                a = params[picks[0] % len(params)]
                others = [p for p in params + kinvars if p.assumptions0 != a.assumptions0 and p.name != a.name]
                if others:
                    renames = {a.name: others[picks[-1] % len(others)].name}
                    collided_now = True
                    probes["collision"] += 1
            elif mk == "empty":
                renames = {}
            ev["renames"] = renames
            # whatever the kind: if two distinct symbols end up with the same name *and* the same
            # assumptions they become one symbol, i.e. the rename is a merge (possible after collisions)
            images: dict[tuple, int] = {}
            for sym in all_symbols(model):
                image = (renames.get(sym.name, sym.name), tuple(sorted(sym.assumptions0.items())))
                images[image] = images.get(image, 0) + 1
            if any(n > 1 for n in images.values()):
                merged_now = True
            expression_names = {s.name for s in model.expression.free_symbols}
            for name in renames:
                if name in slot["sources"] and name not in expression_names:
                    probes["param_not_in_expression_renamed"] += 1
            form = op.get("form", "dict")
            table = dict(renames)
            if form == "dict":
                argument = table
            elif form == "shared":
                # one rename table of the caller's, re-used for several models (names unknown to one
                # model may be known to the next)
                shared_table.update(renames)
                table = shared_table
                argument = shared_table
                renames = dict(shared_table)
                ev["renames"] = renames
            elif form == "list":
                argument = list(table.items())
            elif form == "zip":
                argument = zip(list(table), list(table.values()))
            elif form == "generator":
                argument = ((k, v) for k, v in table.items())
            else:
                argument = table.items()
            snapshot_of_argument = dict(table)
            try:
                new_model = model.rename_symbols(argument)
            except Exception as exc:  # noqa: BLE001
                flag(f"rename-raised:{type(exc).__name__}", f"slot {si}: rename_symbols({renames}) raised {exc}", oi)
                events.append(ev)
                continue
            images = {}
            for sym in all_symbols(model):
                image = (renames.get(sym.name, sym.name), tuple(sorted(sym.assumptions0.items())))
                images[image] = images.get(image, 0) + 1
            if any(n > 1 for n in images.values()):
                merged_now = True
            # whatever the kind: symbols with different assumptions that end up under one name stay two
            # symbols that share a name (a collision); lookups by name are ambiguous from then on
            shared_before: dict[str, set] = {}
            shared_after: dict[str, set] = {}
            for sym in all_symbols(model):
                assumptions = tuple(sorted(sym.assumptions0.items()))
                shared_before.setdefault(sym.name, set()).add(assumptions)
                shared_after.setdefault(renames.get(sym.name, sym.name), set()).add(assumptions)
            if sum(len(v) > 1 for v in shared_after.values()) > sum(len(v) > 1 for v in shared_before.values()):
                collided_now = True
                probes["collision_generic"] = probes.get("collision_generic", 0) + 1
            if form == "shared":
                names_now = {s_.name: s_ for s_ in all_symbols(model)}
                for a_, b_ in renames.items():
                    if a_ in names_now and b_ in names_now and a_ != b_ and \
                            names_now[a_].assumptions0 != names_now[b_].assumptions0:
                        collided_now = True
            if table != snapshot_of_argument:
                flag("argument-mutated", f"slot {si}: rename_symbols changed the caller's rename table from {snapshot_of_argument} to {table}", oi)
                if form == "shared":
                    shared_table.clear()
                    shared_table.update(snapshot_of_argument)
            probes[f"form_{form}"] = probes.get(f"form_{form}", 0) + 1
            if new_model is model:
                probes["alias"] += 1
                ev["alias"] = True
                if renames and any(n in {s.name for s in all_symbols(model)} for n in renames):
                    flag("alias", f"slot {si}: rename_symbols({renames}) returned the model itself", oi)
            else:
                if slot["depth"] > 0:
                    probes["rename_of_renamed"] += 1
                known = {s.name for s in all_symbols(model)}
                step = {n: v for n, v in renames.items() if n in known}
                new_map = {}
                for s in root_symbols[slot["root"]]:
                    mid = slot["map"].get(s.name, s.name)
                    final = step.get(mid, mid)
                    if final != s.name:
                        new_map[s.name] = final
                sources: dict[str, list] = {}
                for name, values in slot["sources"].items():
                    sources.setdefault(step.get(name, name), []).extend(values)
                new_slot = {"model": new_model, "root": slot["root"], "map": new_map,
                            "collided": bool(slot.get("collided")) or collided_now,
                            "merged": slot["merged"] or merged_now, "sources": sources,
                            "depth": slot["depth"] + 1, "rx": slot["rx"], "fallback": None}
                slots.append(new_slot)
                check_slot(len(slots) - 1, oi, with_numeric=False)
        elif kind == "transient":
            # a renamed model that is thrown away at once (its address may be reused by later models)
            import gc  # noqa: PLC0415

            names = sorted(s_.name for s_ in model.parameter_defaults if isinstance(s_, sp.Symbol))
            if names:
                tmp = model.rename_symbols({names[op["pick"] % len(names)]: "zz_{transient}"})
                tmp2 = tmp.rename_symbols({"zz_{transient}": "zz_{transient2}"})  # tmp was renamed *from*, too
                del tmp2
                del tmp  # freed last: the next object of its size is likely to take its address
                if op.get("clone"):
                    # at once, so that the clone has a good chance to be allocated where the temporary was
                    import copy  # noqa: PLC0415
                    import pickle  # noqa: PLC0415

                    clone = pickle.loads(pickle.dumps(model)) if op["clone"] == "pickle" else copy.deepcopy(model)  # noqa: S301
                    slots.append(dict(slot, model=clone, sources={k: list(v) for k, v in slot["sources"].items()},
                                      depth=slot["depth"]))
                    probes["clone"] = probes.get("clone", 0) + 1
        elif kind == "clone":
            # the same model through pickle or deepcopy: a new object with the same reference
            import copy  # noqa: PLC0415
            import pickle  # noqa: PLC0415

            clone = pickle.loads(pickle.dumps(model)) if op.get("how") == "pickle" else copy.deepcopy(model)  # noqa: S301
            slots.append(dict(slot, model=clone, sources={k: list(v) for k, v in slot["sources"].items()},
                              depth=slot["depth"]))
            probes["clone"] = probes.get("clone", 0) + 1
            check_slot(len(slots) - 1, oi, with_numeric=False)
        elif kind == "set":
            keys = list(model.parameter_defaults)
            if keys and not slot.get("collided"):
                target = keys[op["pick"] % len(keys)]
                how = op["how"]
                value = op["value"]
                if isinstance(model.parameter_defaults[target], complex):
                    value = complex(value, -value / 2)
                key = target if how == "symbol" else (str(target) if how == "name" else keys.index(target))
                if how == "name":
                    # the first parameter with that str is the one addressed
                    target = next(k for k in keys if str(k) == key)
                probes[f"set_by_{how}"] += 1
                try:
                    model.parameter_defaults[key] = value
                except Exception as exc:  # noqa: BLE001
                    flag(f"set-raised:{type(exc).__name__}", f"slot {si}: parameter_defaults[{key!r}] = {value}: {exc}", oi)
                else:
                    for s in slots:
                        if s["model"] is model:
                            s["sources"][target.name] = [value]
                    changed_ids.add(id(model))
                    got = model.parameter_defaults[target]
                    if got != value:
                        flag("set-lost", f"slot {si}: value read back {got} != {value}", oi)
        elif kind == "check":
            check_slot(si, oi, with_numeric=numeric and op.get("numeric", False))
        # every other slot is unchanged by the op
        after = snapshot()
        for (ident, dig_before), (ident2, dig_after), s_index in zip(before, after, range(len(before))):
            if ident in changed_ids:
                continue
            if dig_before != dig_after:
                flag("aliasing", f"{kind} on slot {si} changed slot {s_index} ({slots[s_index]['rx']})", oi)
        events.append(ev)
    for si in range(len(slots)):
        check_slot(si, len(ops), with_numeric=False)
    return {"events": events, "mismatches": mismatches, "probes": probes, "n_slots": len(slots),
            "fallback_roots": [s["fallback"] for s in slots[: len(roots)]],
            "max_depth": max(s["depth"] for s in slots), "cfg": CFG,
            "n_merged_slots": sum(1 for s in slots if s["merged"])}
