"""Seam-level simulation of processes sharing a directory (DESIGN §2.3, §2.4).

Each simulated process ("actor") is a real thread that only runs while it holds the
baton.  It parks at every file-system seam; the scheduler (main thread) chooses who
proceeds and whether a fault fires there.  A *kill* parks the thread forever and
closes its descriptors (what the kernel does at SIGKILL): no unwinding, no flush.

The directory is a real tmpfs directory, so rename/replace/O_EXCL/unlink semantics
are the kernel's whatever API shape the code under test uses.
"""

from __future__ import annotations

import builtins
import errno
import hashlib
import io
import json
import os
import random
import re
import signal
import threading
import time
import traceback
import uuid

_KEY_PATTERN = re.compile(r"pythonhashseed-\d+[+-]\d+|[0-9a-f]{64}")
FAULT_NONE, FAULT_KILL, FAULT_ERROR = 0, 1, 2
# seams at which an injected OSError stands for a failing system call (besides write chunks)
ERROR_SEAMS = ("open", "os.open", "replace", "rename", "close", "link", "unlink", "remove")

_real = {}
_tls = threading.local()


class StepCap(Exception):
    pass


def _raise_injected(sim, what: str):
    code = sim.error_code()
    raise OSError(code, os.strerror(code), what)


class SimFile(io.FileIO):
    """Unbuffered file whose writes are cut into simulator-chosen chunks."""

    def __init__(self, sim, actor, file, mode, closefd=True, opener=None) -> None:
        super().__init__(file, mode, closefd=closefd, opener=opener)
        self._sim = sim
        self._actor = actor
        self._rel = sim.rel(file) if not isinstance(file, int) else sim.fd_paths.get(file, f"fd{file}")
        self._writing = any(c in mode for c in "wax+")
        self._plan = None
        actor.files.add(self)
        if self._writing:
            actor.writing += 1
            sim.probe_open_for_write(actor, self._rel)
        else:
            sim.probe_open_for_read(actor, self._rel)

    def _mine(self) -> bool:
        return getattr(_tls, "actor", None) is self._actor

    def write(self, b) -> int:
        if not self._mine():
            return super().write(b)
        data = bytes(b)
        total = 0
        if self._plan is None:
            self._plan = self._sim.chunk_mode(self._actor)
        for size in self._sim.chunk_sizes(len(data), self._plan):
            chunk = data[total : total + size]
            fault = self._sim.seam("write", f"{self._rel}@{self.tell()}+{len(chunk)}")
            if fault == FAULT_ERROR:
                code = self._sim.error_code()
                raise OSError(code, os.strerror(code), self._rel)
            view = memoryview(chunk)
            while view:
                n = super().write(view)
                view = view[n:]
            total += len(chunk)
        return total

    def read(self, size=-1):
        if self._mine():
            self._sim.seam("read", self._rel)
        return super().read(size)

    def readall(self):
        if self._mine():
            self._sim.seam("read", self._rel)
        return super().readall()

    def readinto(self, b):
        if self._mine():
            self._sim.seam("read", self._rel)
        return super().readinto(b)

    def close(self) -> None:
        if self.closed:
            return
        fault = self._sim.seam("close", self._rel) if self._mine() else FAULT_NONE
        self._forget()
        super().close()
        if fault == FAULT_ERROR:
            _raise_injected(self._sim, self._rel)

    def _forget(self) -> None:
        if self in self._actor.files:
            self._actor.files.discard(self)
            if self._writing:
                self._actor.writing -= 1
                self._sim.probe_close_write(self._actor, self._rel)
            else:
                self._sim.probe_close_read(self._actor, self._rel)

    def force_close(self) -> None:
        """Kernel closes the descriptor of a killed process."""
        self._forget()
        try:
            io.FileIO.close(self)
        except OSError:
            pass


class Actor:
    def __init__(self, sim, idx: int, name: str, pid: int, fn, faults: bool) -> None:
        self.sim = sim
        self.idx = idx
        self.name = name
        self.pid = pid
        self.fn = fn
        self.faults = faults
        self.go = threading.Semaphore(0)
        self.state = "new"
        self.pending = ("start", "")
        self.decision = FAULT_NONE
        self.files: set = set()
        self.fds: set = set()
        self.writing = 0
        self.in_call = False
        self.injected_error = False
        self.entropy = random.Random(f"entropy:{pid}")
        self.name_counter = 0
        self.thread = threading.Thread(target=self._main, name=f"actor-{idx}", daemon=True)
        self.exc = None
        # process mode (knob mode="proc"): the actor is a real fork()ed process
        self.os_pid = None
        self.to_actor = None
        self.from_actor = None

    # ---- process mode, scheduler side ------------------------------------- #
    def fork(self) -> None:
        cmd_r, cmd_w = os.pipe()
        msg_r, msg_w = os.pipe()
        pid = _real_fork()
        if pid == 0:
            try:
                os.close(cmd_w)
                os.close(msg_r)
                for other in self.sim.actors:  # pipes to siblings that were forked earlier
                    for f in (other.to_actor, other.from_actor):
                        if f is not None:
                            f.close()
                self.sim.become_actor_process(self, os.fdopen(cmd_r, "r"), os.fdopen(msg_w, "w"))
            finally:
                os._exit(0)
        os.close(cmd_r)
        os.close(msg_w)
        self.os_pid = pid
        self.to_actor = os.fdopen(cmd_w, "w")
        self.from_actor = os.fdopen(msg_r, "r")

    def send(self, obj) -> None:
        self.to_actor.write(json.dumps(obj) + "\n")
        self.to_actor.flush()

    def recv(self):
        line = self.from_actor.readline()
        return json.loads(line) if line else None

    def reap(self, kill: bool) -> None:
        if self.os_pid is None:
            return
        if kill:
            try:
                os.kill(self.os_pid, signal.SIGKILL)
            except ProcessLookupError:
                pass
        try:
            os.waitpid(self.os_pid, 0)
        except ChildProcessError:
            pass
        self.os_pid = None
        for f in (self.to_actor, self.from_actor):
            try:
                f.close()
            except OSError:
                pass
        self.to_actor = self.from_actor = None

    def _main(self) -> None:
        _tls.actor = self
        self.go.acquire()
        try:
            self.fn(self)
        except BaseException as exc:  # noqa: BLE001  harness bug inside an actor script
            self.exc = exc
        self.state = "done"
        self.sim.back.release()

    def temp_names(self):
        while True:
            self.name_counter += 1
            yield f"s{self.pid}n{self.name_counter:03d}"


class Sim:
    def __init__(self, chooser, root: str, knobs: dict) -> None:
        self.chooser = chooser
        self.root = os.path.realpath(root)
        self.knobs = knobs
        self.actors: list[Actor] = []
        self.back = threading.Semaphore(0)
        self.events: list[tuple] = []
        self.steps = 0
        self.max_steps = int(knobs.get("max_steps", 4000))
        self.kills_left = int(knobs.get("kills", 0))
        self.errors_left = int(knobs.get("errors", 0))
        self.fired = {"kill": 0, "error": 0, "switch": 0}
        self.kill_sites: dict[str, int] = {}
        self.error_sites: dict[str, int] = {}
        self.fd_paths: dict[int, str] = {}
        self.open_writers: dict[str, set] = {}
        self.open_readers: dict[str, set] = {}
        self.probes: dict[str, int] = {}
        self.current: Actor | None = None
        self.killed_at = None
        self.key_aliases: dict[str, str] = {}
        self.mode = knobs.get("mode", "thread")
        self.results: list = []
        self.remote = None  # (reader, writer) inside an actor process
        self.outbox: list = []

    # ---- process mode, actor side ---------------------------------------- #
    def become_actor_process(self, actor, reader, writer) -> None:
        """Runs in the fork()ed child: talk to the scheduler over pipes, one seam at a time."""
        self.remote = (reader, writer)
        self.chooser = _RemoteChooser(self)
        _tls.actor = actor
        error = None
        try:
            self.seam("start", "")
            actor.fn(actor)
        except BaseException:  # noqa: BLE001  harness bug inside an actor script
            error = traceback.format_exc()[-1500:]
        self._tell({"done": True, "outbox": self.outbox, "error": error})

    def _tell(self, obj) -> None:
        self.remote[1].write(json.dumps(obj, default=str) + "\n")
        self.remote[1].flush()

    def _ask(self, obj):
        self._tell(obj)
        line = self.remote[0].readline()
        if not line:  # scheduler gone
            os._exit(0)
        return json.loads(line)

    def report(self, result: dict) -> None:
        if self.remote is not None:
            self.outbox.append(["report", result])
        else:
            self.results.append(result)

    # ---- helpers -------------------------------------------------------- #
    def owns(self, path) -> bool:
        if isinstance(path, int):
            return path in self.fd_paths
        try:
            p = os.path.abspath(os.fspath(path))
        except TypeError:
            return False
        if isinstance(p, bytes):
            p = p.decode()
        return p == self.root or p.startswith(self.root + os.sep)

    def rel(self, path) -> str:
        if isinstance(path, int):
            return self.fd_paths.get(path, f"fd{path}")
        p = os.path.abspath(os.fspath(path))
        if isinstance(p, bytes):
            p = p.decode()
        return os.path.relpath(p, self.root)

    def alias(self, text: str) -> str:
        """Cache keys may depend on object addresses (hash() of a functools.partial attribute under a
        fixed hash seed): the event log names them by order of first appearance instead."""
        def repl(match):
            key = match.group(0)
            if key not in self.key_aliases:
                self.key_aliases[key] = f"key{len(self.key_aliases)}"
            return self.key_aliases[key]

        return _KEY_PATTERN.sub(repl, text)

    def probe(self, name: str, n: int = 1) -> None:
        if self.remote is not None:
            self.outbox.append(["probe", name, n])
            return
        self.probes[name] = self.probes.get(name, 0) + n

    def _forward(self, name: str, rel: str) -> bool:
        if self.remote is not None:
            self.outbox.append([name, rel])
            return True
        return False

    def _apply_outbox(self, actor, outbox) -> None:
        for item in outbox:
            if item[0] == "report":
                self.results.append(item[1])
            elif item[0] == "probe":
                self.probe(item[1], item[2])
            else:
                getattr(self, item[0])(actor, item[1])

    def probe_open_for_write(self, actor, rel) -> None:
        if self._forward("probe_open_for_write", rel):
            return
        if self.open_readers.get(rel):
            self.probe("writer_opened_file_open_for_reading")
        self.open_writers.setdefault(rel, set()).add(actor.idx)

    def probe_close_write(self, actor, rel) -> None:
        if self._forward("probe_close_write", rel):
            return
        self.open_writers.get(rel, set()).discard(actor.idx)

    def probe_open_for_read(self, actor, rel) -> None:
        if self._forward("probe_open_for_read", rel):
            return
        if self.open_writers.get(rel):
            self.probe("reader_opened_file_open_for_writing")
        self.open_readers.setdefault(rel, set()).add(actor.idx)

    def probe_close_read(self, actor, rel) -> None:
        if self._forward("probe_close_read", rel):
            return
        self.open_readers.get(rel, set()).discard(actor.idx)

    def spawn(self, name: str, fn, faults: bool = True) -> Actor:
        idx = len(self.actors)
        pid = int(self.knobs.get("pid_base", 4000)) + idx
        actor = Actor(self, idx, name, pid, fn, faults)
        self.actors.append(actor)
        return actor

    # ---- actor side ----------------------------------------------------- #
    def seam(self, kind: str, detail: str = "") -> int:
        actor = getattr(_tls, "actor", None)
        if actor is None:
            return FAULT_NONE
        if self.remote is not None:
            outbox, self.outbox = self.outbox, []
            reply = self._ask({"seam": [kind, detail], "writing": actor.writing, "in_call": actor.in_call,
                               "outbox": outbox})
            decision = reply["decision"]
        else:
            actor.pending = (kind, detail)
            actor.state = "parked"
            self.back.release()
            actor.go.acquire()
            decision = actor.decision
        if decision == FAULT_ERROR:
            actor.injected_error = True
        return decision

    def chunk_mode(self, actor) -> int:
        modes = self.knobs.get("chunk_modes", [0])
        if not actor.faults or len(modes) <= 1:
            return modes[0] if modes else 0
        return modes[self.chooser.choose(len(modes), "chunk-mode")]

    def chunk_sizes(self, n: int, mode: int):
        """0: whole; 1: 2..5 pieces; 2: fine (1..16 B) for the first 24 chunks; 3: byte-wise (<=64);
        4: byte-wise throughout (directed crash sweep)."""
        if n <= 1 or mode == 0:
            yield n
            return
        done = 0
        if mode == 1:
            pieces = 2 + self.chooser.choose(4, "pieces")
            for _ in range(pieces - 1):
                if n - done <= 1:
                    break
                size = 1 + self.chooser.choose(n - done - 1, "cut")
                yield size
                done += size
            yield n - done
            return
        limit = 24 if mode == 2 else (64 if mode == 3 else n)
        count = 0
        while done < n and count < limit:
            size = 1 if mode in (3, 4) else 1 + self.chooser.choose(16, "fine")
            size = min(size, n - done)
            yield size
            done += size
            count += 1
        if done < n:
            yield n - done

    def error_code(self) -> int:
        return (errno.ENOSPC, errno.EIO)[self.chooser.choose(2, "errno")]

    # ---- scheduler ------------------------------------------------------ #
    def _decide_fault(self, actor: Actor) -> int:
        if not actor.faults:
            return FAULT_NONE
        if "kill_at_step" in self.knobs:  # directed fault placement (crash sweep)
            return FAULT_KILL if self.steps == int(self.knobs["kill_at_step"]) else FAULT_NONE
        kind = actor.pending[0]
        can_kill = self.kills_left > 0 and actor.in_call and kind not in ("start",)
        can_error = self.errors_left > 0 and (
            kind in ("write", "fsync") or (kind in ERROR_SEAMS and actor.in_call and self.knobs.get("syscall_errors")))
        if not (can_kill or can_error):
            return FAULT_NONE
        w_none = int(self.knobs.get("w_none", 60))
        w_kill = (6 if actor.writing else 1) if can_kill else 0
        w_err = 3 if can_error else 0
        value = self.chooser.choose(3, "fault", weights=[w_none, w_kill, w_err])
        if value == FAULT_KILL and not can_kill:
            return FAULT_NONE
        if value == FAULT_ERROR and not can_error:
            return FAULT_NONE
        return value

    def _kill(self, actor: Actor) -> None:
        actor.state = "killed"
        self.kills_left -= 1
        self.killed_at = {"step": self.steps, "seam": actor.pending[0], "detail": self.alias(actor.pending[1])}
        self.fired["kill"] += 1
        site = actor.pending[0] + ("+w" if actor.writing else "")
        self.kill_sites[site] = self.kill_sites.get(site, 0) + 1
        if actor.writing:
            self.probe("kill_with_open_write_handle")
        if actor.os_pid is not None:
            actor.reap(kill=True)  # SIGKILL: the kernel closes the descriptors, nothing unwinds
            for table in (self.open_writers, self.open_readers):
                for holders in table.values():
                    holders.discard(actor.idx)
            return
        for f in list(actor.files):
            f.force_close()
        for fd in list(actor.fds):
            try:
                _real["os.close"](fd)
            except OSError:
                pass
            self.fd_paths.pop(fd, None)
        actor.fds.clear()

    def run(self) -> None:
        for actor in self.actors:
            if actor.state == "new":
                actor.state = "parked"
                if self.mode == "proc":
                    actor.fork()
                    self._pump(actor)  # its "start" seam
                else:
                    actor.thread.start()
        stay = int(self.knobs.get("w_stay", 4))
        while True:
            runnable = [a for a in self.actors if a.state == "parked"]
            if not runnable:
                break
            if self.current in runnable:
                order = [self.current] + [a for a in runnable if a is not self.current]
                weights = [stay] + [1] * (len(order) - 1)
            else:
                order = runnable
                weights = [1] * len(order)
            forced = self._forced_actor(runnable)
            if forced is not None:
                actor = forced
            else:
                k = self.chooser.choose(len(order), "sched", weights=weights)
                actor = order[k]
            if self.current is not None and actor is not self.current and self.current in runnable:
                self.fired["switch"] += 1
            fault = self._decide_fault(actor)
            self.events.append((actor.idx, actor.pending[0], self.alias(actor.pending[1]), fault))
            self.steps += 1
            if self.steps > self.max_steps:
                raise StepCap(f"more than {self.max_steps} scheduler steps")
            if fault == FAULT_KILL:
                self._kill(actor)
                continue
            if fault == FAULT_ERROR:
                self.errors_left -= 1
                self.fired["error"] += 1
                self.error_sites[actor.pending[0]] = self.error_sites.get(actor.pending[0], 0) + 1
            actor.decision = fault
            actor.state = "running"
            self.current = actor
            if actor.os_pid is not None:
                actor.send({"decision": fault})
                self._pump(actor)
            else:
                actor.go.release()
                self.back.acquire()
        for actor in self.actors:
            if actor.exc is not None:
                raise actor.exc

    def _forced_actor(self, runnable):
        """Directed schedules (knob preempt_at=[k1, k2, ...]): the actors take turns, the baton is
        handed to the next actor in index order when the step counter reaches the next k; an actor
        that is done or dead is skipped.  Without the knob: None (the chooser decides)."""
        plan = self.knobs.get("preempt_at")
        if plan is None:
            return None
        turn = sum(1 for k in plan if self.steps >= k)
        n = len(self.actors)
        for offset in range(n):
            candidate = self.actors[(turn + offset) % n]
            if candidate in runnable:
                return candidate
        return None

    def _pump(self, actor) -> None:
        """Serve the running actor process until it parks at its next seam or finishes."""
        while True:
            msg = actor.recv()
            if msg is None:
                actor.reap(kill=True)
                raise RuntimeError(f"actor process {actor.idx} died at {actor.pending}")
            if "choose" in msg:
                n, label, weights = msg["choose"]
                actor.send({"value": self.chooser.choose(n, label, weights)})
                continue
            self._apply_outbox(actor, msg.get("outbox", []))
            if msg.get("done"):
                actor.state = "done"
                actor.reap(kill=False)
                if msg.get("error"):
                    actor.exc = RuntimeError(msg["error"])
                return
            actor.pending = tuple(msg["seam"])
            actor.writing = msg["writing"]
            actor.in_call = msg["in_call"]
            actor.state = "parked"
            return

    def shutdown(self) -> None:
        for actor in self.actors:
            if actor.os_pid is not None:
                actor.reap(kill=True)

    def events_digest(self) -> str:
        m = hashlib.sha256()
        for ev in self.events:
            m.update(repr(ev).encode())
        return m.hexdigest()[:24]


class _RemoteChooser:
    """Inside an actor process every decision is still taken (and recorded) by the scheduler."""

    def __init__(self, sim) -> None:
        self.sim = sim

    def choose(self, n: int, label: str, weights=None) -> int:
        if n <= 1:
            return 0
        return self.sim._ask({"choose": [n, label, weights]})["value"]  # noqa: SLF001


_real_fork = os.fork

# --------------------------------------------------------------------------- #
# seams
# --------------------------------------------------------------------------- #
_SIM: Sim | None = None


def _actor():
    return getattr(_tls, "actor", None)


def _sim_open(file, mode="r", buffering=-1, encoding=None, errors=None, newline=None,
              closefd=True, opener=None):
    actor = _actor()
    sim = _SIM
    if actor is None or sim is None or not sim.owns(file):
        return _real["open"](file, mode, buffering, encoding, errors, newline, closefd, opener)
    if sim.seam("open", f"{sim.rel(file)}:{mode}") == FAULT_ERROR:
        _raise_injected(sim, sim.rel(file))
    raw_mode = mode.replace("t", "")
    if isinstance(file, int):
        actor.fds.discard(file)
    raw = SimFile(sim, actor, file, raw_mode, closefd=closefd, opener=opener)
    if isinstance(file, int):
        sim.fd_paths.pop(file, None)
    if "b" in mode:
        return raw
    if any(c in mode for c in "wax"):
        buffered = io.BufferedWriter(raw)
    else:
        buffered = io.BufferedReader(raw)
    return io.TextIOWrapper(buffered, encoding=encoding, errors=errors, newline=newline)


def _wrap_path_fn(name: str, fn, nargs: int = 1):
    def wrapper(*args, **kwargs):
        actor = _actor()
        sim = _SIM
        if actor is None or sim is None:
            return fn(*args, **kwargs)
        paths = [a for a in args[:nargs] if isinstance(a, (str, bytes, os.PathLike))]
        if not paths or not any(sim.owns(p) for p in paths):
            return fn(*args, **kwargs)
        if sim.seam(name, ",".join(sim.rel(p) for p in paths)) == FAULT_ERROR:
            _raise_injected(sim, sim.rel(paths[0]))
        return fn(*args, **kwargs)

    wrapper.__name__ = getattr(fn, "__name__", name)
    wrapper.__wrapped__ = fn
    return wrapper


def _sim_os_open(path, flags, mode=0o777, *, dir_fd=None):
    actor = _actor()
    sim = _SIM
    if actor is None or sim is None or dir_fd is not None or not sim.owns(path):
        if dir_fd is None:
            return _real["os.open"](path, flags, mode)
        return _real["os.open"](path, flags, mode, dir_fd=dir_fd)
    if sim.seam("os.open", sim.rel(path)) == FAULT_ERROR:
        _raise_injected(sim, sim.rel(path))
    fd = _real["os.open"](path, flags, mode)
    sim.fd_paths[fd] = sim.rel(path)
    actor.fds.add(fd)
    return fd


def _sim_os_close(fd):
    actor = _actor()
    sim = _SIM
    if actor is not None and sim is not None and fd in sim.fd_paths and fd in actor.fds:
        sim.seam("os.close", sim.fd_paths[fd])
        actor.fds.discard(fd)
        sim.fd_paths.pop(fd, None)
    return _real["os.close"](fd)


def _sim_os_write(fd, data):
    actor = _actor()
    sim = _SIM
    if actor is None or sim is None or fd not in sim.fd_paths or fd not in actor.fds:
        return _real["os.write"](fd, data)
    data = bytes(data)
    total = 0
    for size in sim.chunk_sizes(len(data), sim.chunk_mode(actor)):
        fault = sim.seam("write", f"{sim.fd_paths[fd]}+{size}")
        if fault == FAULT_ERROR:
            code = sim.error_code()
            raise OSError(code, os.strerror(code))
        total += _real["os.write"](fd, data[total : total + size])
    return total


def _sim_fsync(fd):
    actor = _actor()
    sim = _SIM
    if actor is not None and sim is not None:
        if sim.seam("fsync", str(sim.fd_paths.get(fd, ""))) == FAULT_ERROR:
            _raise_injected(sim, "fsync")
    return _real["os.fsync"](fd)


def _sim_getpid():
    actor = _actor()
    return actor.pid if actor is not None else _real["os.getpid"]()


def _sim_urandom(n):
    actor = _actor()
    if actor is None:
        return _real["os.urandom"](n)
    return actor.entropy.randbytes(n)


def _sim_uuid4():
    actor = _actor()
    if actor is None:
        return _real["uuid.uuid4"]()
    return uuid.UUID(int=actor.entropy.getrandbits(128), version=4)


def _sim_candidate_names():
    actor = _actor()
    if actor is None:
        return _real["tempfile._get_candidate_names"]()
    return actor.temp_names()


def _sim_time(fn_name: str, scale: float):
    def wrapper():
        actor = _actor()
        sim = _SIM
        if actor is None or sim is None:
            return _real[fn_name]()
        value = 1_700_000_000 + sim.steps * 0.001
        return int(value * scale) if scale != 1 else value

    return wrapper


def _sim_sleep(seconds):
    actor = _actor()
    sim = _SIM
    if actor is None or sim is None:
        return _real["sleep"](seconds)
    sim.seam("sleep", "")  # simulated processes never really sleep; others get to run
    return None


def _sim_flock(fd, operation):
    import fcntl  # noqa: PLC0415

    actor = _actor()
    sim = _SIM
    if actor is None or sim is None:
        return _real["fcntl.flock"](fd, operation)
    if operation & fcntl.LOCK_UN or operation & fcntl.LOCK_NB:
        sim.seam("flock", str(operation))
        return _real["fcntl.flock"](fd, operation)
    while True:
        sim.seam("lock-wait", "")
        try:
            return _real["fcntl.flock"](fd, operation | fcntl.LOCK_NB)
        except BlockingIOError:
            sim.probe("lock_contended")


_PATH_FNS_1 = ("stat", "lstat", "mkdir", "rmdir", "unlink", "remove", "listdir", "scandir",
               "utime", "chmod", "truncate", "access", "readlink")
_PATH_FNS_2 = ("rename", "replace", "link", "symlink")


def install(sim: Sim) -> None:
    """Install all seams for the lifetime of this (forked, throw-away) process."""
    global _SIM  # noqa: PLW0603
    import tempfile  # noqa: PLC0415

    _SIM = sim
    _real["open"] = builtins.open
    builtins.open = _sim_open
    io.open = _sim_open
    for name in _PATH_FNS_1:
        if hasattr(os, name):
            _real[f"os.{name}"] = getattr(os, name)
            setattr(os, name, _wrap_path_fn(name, getattr(os, name), 1))
    for name in _PATH_FNS_2:
        _real[f"os.{name}"] = getattr(os, name)
        setattr(os, name, _wrap_path_fn(name, getattr(os, name), 2))
    for name, repl in (("open", _sim_os_open), ("close", _sim_os_close), ("write", _sim_os_write),
                       ("fsync", _sim_fsync), ("getpid", _sim_getpid), ("urandom", _sim_urandom)):
        _real[f"os.{name}"] = getattr(os, name)
        setattr(os, name, repl)
    if hasattr(os, "fdatasync"):
        _real["os.fdatasync"] = os.fdatasync
        os.fdatasync = _sim_fsync
    random._urandom = _sim_urandom  # noqa: SLF001  (SystemRandom / secrets)
    _real["uuid.uuid4"] = uuid.uuid4
    uuid.uuid4 = _sim_uuid4
    _real["tempfile._get_candidate_names"] = tempfile._get_candidate_names  # noqa: SLF001
    tempfile._get_candidate_names = _sim_candidate_names  # noqa: SLF001
    for name, scale in (("time", 1), ("time_ns", 1e9), ("monotonic", 1), ("monotonic_ns", 1e9),
                        ("perf_counter", 1), ("perf_counter_ns", 1e9)):
        _real[name] = getattr(time, name)
        setattr(time, name, _sim_time(name, scale))
    import fcntl  # noqa: PLC0415

    _real["sleep"] = time.sleep
    time.sleep = _sim_sleep
    _real["fcntl.flock"] = fcntl.flock
    fcntl.flock = _sim_flock
    # POSIX record locks are per process and would never conflict between the threads that stand
    # for processes here: emulate whole-file lockf() by flock() (per open file description)
    _real["fcntl.lockf"] = fcntl.lockf
    fcntl.lockf = lambda fd, cmd, *args: _sim_flock(fd, cmd) if _actor() is not None else _real["fcntl.lockf"](fd, cmd, *args)
    random.seed("simverif-global")
