"""Load pickles in a minimal, newly exec'ed interpreter that has imported nothing of ampform.

python -m simverif.fresh_reader <cfg> <file> [<file> ...]  -> JSON {file: {...digests...}}
The reader only has `pickle`; whatever the pickle needs is imported by the unpickler itself.
"""

from __future__ import annotations

import json
import os
import pickle
import sys


def main() -> None:
    cfg = sys.argv[1]
    if cfg.startswith("HU"):
        os.environ.pop("PYTHONHASHSEED", None)
    sys.path.insert(0, os.path.join(os.environ.get("VERIF_REPO", "/repo"), "src"))
    sys.dont_write_bytecode = True
    out_fd = os.dup(1)
    devnull = os.open(os.devnull, os.O_WRONLY)
    os.dup2(devnull, 1)
    os.dup2(devnull, 2)
    result = {}
    preloaded = sorted(m for m in sys.modules if m.startswith(("ampform", "sympy", "qrules")))
    for path in sys.argv[2:]:
        name = os.path.basename(path)
        try:
            with open(path, "rb") as f:
                obj = pickle.load(f)  # noqa: S301
        except Exception as exc:  # noqa: BLE001
            result[name] = {"load_error": f"{type(exc).__name__}: {str(exc)[:160]}"}
            continue
        from simverif import canon  # noqa: PLC0415
        from simverif import z_common as zc  # noqa: PLC0415

        if hasattr(obj, "parameter_defaults") and hasattr(obj, "intensity"):
            result[name] = {"digests": zc.model_digests(obj)}
        else:
            result[name] = {"digest_plain": canon.digest(obj), "digest_n": canon.ndigest(obj)}
    result["__preloaded__"] = preloaded
    os.write(out_fd, json.dumps(result).encode())


if __name__ == "__main__":
    main()
