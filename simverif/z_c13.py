"""C13, zygote side: histories on the DynamicsSelector and a sequential reference model (DESIGN §5.1)."""

from __future__ import annotations

import itertools

from . import z_common as zc

CFG = None


def preload(cfg: str) -> dict:
    global CFG  # noqa: PLW0603
    CFG = cfg
    zc.load_reactions()
    zc.dynamics_registry()
    return {"reactions": sorted(zc.REACTIONS)}


# --------------------------------------------------------------------------- #
# independent reading of the reaction (no ampform helpers)
# --------------------------------------------------------------------------- #
def _final_ids_below(topology, edge_id: int) -> list[int]:
    edge = topology.edges[edge_id]
    if edge.ending_node_id is None:
        return [edge_id]
    out: list[int] = []
    for i, e in topology.edges.items():
        if e.originating_node_id == edge.ending_node_id:
            out += _final_ids_below(topology, i)
    return sorted(out)


def _mass_name(topology, edge_id: int) -> str:
    return "m_" + "".join(str(i) for i in _final_ids_below(topology, edge_id))


def _node_info(transition, node_id: int) -> dict:
    topology = transition.topology
    parent = next(i for i, e in topology.edges.items() if e.ending_node_id == node_id)
    children = sorted(i for i, e in topology.edges.items() if e.originating_node_id == node_id)

    def state(i):
        s = transition.states[i]
        return (i, s.particle.name, str(s.spin_projection))

    inter = transition.interactions[node_id]
    inter_key = (inter.l_magnitude, inter.l_projection, inter.s_magnitude, inter.s_projection,
                 inter.parity_prefactor)
    return {
        "parent": state(parent),
        "children": frozenset(state(i) for i in children),
        "interaction": inter_key,
        "l": inter.l_magnitude,
        "m": _mass_name(topology, parent),
        "mc": frozenset(_mass_name(topology, i) for i in children),
        "particle": transition.states[parent].particle,
    }


def _id_key(info: dict) -> tuple:
    return (info["parent"], info["children"], info["interaction"])


def _free_key(info: dict) -> tuple:
    return (info["parent"][1:], frozenset(c[1:] for c in info["children"]), info["interaction"])


def _relabelled(transition):
    """All relabellings of identical final-state particles (brute force), deduplicated."""
    import attrs  # noqa: PLC0415

    topology = transition.topology
    finals = sorted(topology.outgoing_edge_ids)
    groups: dict[tuple, list[int]] = {}
    for i in finals:
        s = transition.states[i]
        groups.setdefault((s.particle.name, s.spin_projection), []).append(i)
    perms_per_group = [list(itertools.permutations(ids)) for ids in groups.values()]
    seen = set()
    out = []
    for combo in itertools.product(*perms_per_group):
        mapping = {}
        for ids, perm in zip(groups.values(), combo):
            mapping.update(dict(zip(ids, perm)))
        edges = {mapping.get(i, i): e for i, e in topology.edges.items()}
        sig = tuple(sorted((i, e.originating_node_id, e.ending_node_id) for i, e in edges.items()))
        if sig in seen:
            continue
        seen.add(sig)
        new_topology = attrs.evolve(topology, edges=edges)
        states = {mapping.get(i, i): s for i, s in transition.states.items()}
        out.append(attrs.evolve(transition, topology=new_topology, states=states))
    return out


def _variable_set(m: str, m1: str, m2: str, l_value):
    import sympy as sp  # noqa: PLC0415

    from ampform.dynamics.builder import TwoBodyKinematicVariableSet  # noqa: PLC0415

    return TwoBodyKinematicVariableSet(
        incoming_state_mass=sp.Symbol(m, nonnegative=True),
        outgoing_state_mass1=sp.Symbol(m1, nonnegative=True),
        outgoing_state_mass2=sp.Symbol(m2, nonnegative=True),
        helicity_theta=sp.Symbol("theta_unused", real=True),
        helicity_phi=sp.Symbol("phi_unused", real=True),
        angular_momentum=l_value,
    )


class Reference:
    """owner[decay] := builder id, updated per op by an independent reading of the statement."""

    def __init__(self, reaction) -> None:
        self.reaction = reaction
        self.owner: dict[tuple, str] = {}
        self.infos: dict[tuple, dict] = {}
        for transition in reaction.transitions:
            for node_id in transition.topology.nodes:
                info = _node_info(transition, node_id)
                self.owner[_id_key(info)] = "non_dynamic"
                self.infos[_id_key(info)] = info
        self.probes = {"override": 0, "decay_overrode_name": 0, "name_overrode_decay": 0,
                       "unknown_name": 0, "name_in_several_topologies": 0}
        self.last_kind: dict[tuple, str] = {}

    def assign_name(self, name: str, dyn: str) -> None:
        hit = [k for k, info in self.infos.items() if info["parent"][1] == name]
        if not hit:
            self.probes["unknown_name"] += 1
        masses = {self.infos[k]["m"] for k in hit}
        if len(masses) > 1:
            self.probes["name_in_several_topologies"] += 1
        for k in hit:
            self._set(k, dyn, "name")

    def assign_decay(self, info: dict, dyn: str) -> None:
        self._set(_id_key(info), dyn, "decay")

    def _set(self, k, dyn, kind) -> None:
        if self.owner.get(k, "non_dynamic") != "non_dynamic":
            self.probes["override"] += 1
            if self.last_kind.get(k) == "name" and kind == "decay":
                self.probes["decay_overrode_name"] += 1
            if self.last_kind.get(k) == "decay" and kind == "name":
                self.probes["name_overrode_decay"] += 1
        self.owner[k] = dyn
        self.last_kind[k] = kind

    def owner_of(self, info: dict) -> str:
        k = _id_key(info)
        if k in self.owner:
            return self.owner[k]
        # chain produced by symmetrising identical final-state particles: the same decay up to ids
        free = _free_key(info)
        for k2, info2 in self.infos.items():
            if _free_key(info2) == free:
                return self.owner[k2]
        return "non_dynamic"


def run_history(rx: str, ops: list) -> dict:  # noqa: C901, PLR0912, PLR0915
    import sympy as sp  # noqa: PLC0415

    import ampform  # noqa: PLC0415

    reaction = zc.REACTIONS[rx]
    builder = ampform.get_builder(reaction)
    twin = ampform.get_builder(reaction)
    ref = Reference(reaction)
    registry = zc.dynamics_registry()
    transitions = list(reaction.transitions)
    names = sorted({info["parent"][1] for info in ref.infos.values()})
    particles = {info["parent"][1]: info["particle"] for info in ref.infos.values()}
    events = []
    faults = {"probe_raise": [0, 0]}

    for oi, op in enumerate(ops):
        ev = {"i": oi, "op": op["op"]}
        kind = op["op"]
        if kind == "assign":
            dyn = op["dyn"]
            fn = registry[dyn]
            sel = op["sel"]
            sk = sel["kind"]
            try:
                if sk in ("name", "particle", "set_dynamics"):
                    name = "X(9999)" if sel.get("unknown") else names[sel["i"] % len(names)]
                    if sk == "name":
                        builder.dynamics.assign(name, fn)
                    elif sk == "set_dynamics":
                        import warnings  # noqa: PLC0415

                        with warnings.catch_warnings():
                            warnings.simplefilter("ignore")
                            builder.set_dynamics(name, fn)
                    else:
                        if sel.get("unknown"):
                            ev["skipped"] = "no unknown particle"
                            events.append(ev)
                            continue
                        builder.dynamics.assign(particles[name], fn)
                    ref.assign_name(name, dyn)
                    ev["sel"] = f"{sk}:{name}"
                else:
                    t = transitions[sel["i"] % len(transitions)]
                    nodes = sorted(t.topology.nodes)
                    n = nodes[sel.get("n", 0) % len(nodes)]
                    if sk == "decay":
                        from ampform.helicity.decay import TwoBodyDecay  # noqa: PLC0415

                        builder.dynamics.assign(TwoBodyDecay.from_transition(t, n), fn)
                    else:
                        builder.dynamics.assign((t, n), fn)
                    info = _node_info(t, n)
                    ref.assign_decay(info, dyn)
                    ev["sel"] = f"{sk}:{info['parent'][1]}@{info['m']}"
            except Exception as exc:  # noqa: BLE001
                ev["op_error"] = f"{type(exc).__name__}: {str(exc)[:100]}"
        elif kind == "helcoup":
            builder.config.use_helicity_couplings = bool(op["v"])
            twin.config.use_helicity_couplings = bool(op["v"])
        elif kind == "formulate":
            zc.PROBE_LOG.clear()
            fault = op.get("fault") or {}
            injected = False
            if fault.get("kind") == "probe_raise":
                faults["probe_raise"][0] += 1
                zc.arm_probe_fault(int(fault["k"]))
            try:
                model = builder.formulate()
                error = None
            except Exception as exc:  # noqa: BLE001
                model = None
                error = exc
            injected = zc.probe_fault_fired()
            zc.arm_probe_fault(None)
            if injected:
                faults["probe_raise"][1] += 1
                ev["injected"] = True
                events.append(ev)
                continue
            # ----- prediction ------------------------------------------------- #
            predicted_calls = set()
            chains: dict[str, list] = {}
            chain_lib: dict[str, list] = {}
            lib_owners: dict[str, set] = {}
            expect_error = None
            for transition in transitions:
                for t2 in _relabelled(transition):
                    cname = "A_{" + builder.naming.generate_amplitude_name(t2) + "}"
                    bag = set()
                    chains.setdefault(cname, []).append(bag)
                    lib_nodes: list = []
                    chain_lib.setdefault(cname, []).append(lib_nodes)
                    for node_id in sorted(t2.topology.nodes):
                        info = _node_info(t2, node_id)
                        owner = ref.owner_of(info)
                        if owner.startswith("probe"):
                            call = (owner[5:], info["parent"][1], info["m"], info["mc"], info["l"])
                            predicted_calls.add(call)
                            bag.add(call)
                        elif owner != "non_dynamic":
                            lib_owners.setdefault(info["parent"][1], set()).add(owner)
                            l_value = info["l"]
                            if l_value is None and info["particle"].spin.is_integer():
                                l_value = int(info["particle"].spin)  # documented fallback
                            lib_nodes.append((registry[owner], info["particle"], info["m"], tuple(sorted(info["mc"])), l_value))
                            if owner in ("bw_ff", "bw_analytic", "bw_swave", "bw_ffonly", "bw_edw", "non_dynamic_ff") and \
                                    info["l"] is None and not info["particle"].spin.is_integer():
                                expect_error = "ValueError"
            if error is not None:
                ev["outcome"] = f"raised:{type(error).__name__}"
                if expect_error != type(error).__name__:
                    ev["mismatch"] = [{"kind": f"formulate-raised:{type(error).__name__}",
                                       "detail": str(error)[:160]}]
                events.append(ev)
                continue
            ev["outcome"] = "model"
            mismatches = []
            # (a) probe calls
            observed = set()
            for rec in zc.PROBE_LOG:
                observed.add((rec["tag"], rec["particle"], rec["m"], frozenset((rec["m1"], rec["m2"])),
                              rec["L"]))

            def strip_l(calls, predicted):
                # L is part of the statement only where the transition specifies one
                unspecified = {c[:4] for c in predicted if c[4] is None}
                return {c if c[:4] not in unspecified else c[:4] + (None,) for c in calls}

            obs_cmp = strip_l(observed, predicted_calls)
            for call in sorted(predicted_calls - obs_cmp, key=str):
                mismatches.append({"kind": f"missing-call:{rx}:{call[1]}",
                                   "detail": f"probe {call[0]} was never called for {call[1]} with ({call[2]}; {sorted(call[3])}; L={call[4]})"})
            for call in sorted(obs_cmp - predicted_calls, key=str):
                mismatches.append({"kind": f"unexpected-call:{rx}:{call[1]}",
                                   "detail": f"probe {call[0]} called for {call[1]} with ({call[2]}; {sorted(call[3])}; L={call[4]})"})
            # (b) chain components: stripped of dynamics they equal the dynamics-free twin
            twin_model = twin.formulate()
            for cname, expr in model.components.items():
                if not cname.startswith("A_"):
                    continue
                apps = [a for a in expr.atoms(sp.Function) if type(a).__name__.startswith("Dyn")]
                bag = set()
                for a in apps:
                    m, m1, m2, l_ = a.args
                    l_val = None if l_ == -1 else int(l_)
                    bag.add((type(a).__name__[3:], None, m.name, frozenset((m1.name, m2.name)), l_val))
                want = chains.get(cname)
                if want is None:
                    mismatches.append({"kind": f"unknown-chain:{rx}", "detail": cname})
                    continue
                # equally named chains (identical-particle partners) share one component entry,
                # which holds whichever was formulated last: accept any of them
                matched = False
                for candidate in want:
                    unspecified = {(c[0], None, c[2], c[3]) for c in candidate if c[4] is None}
                    want_cmp = {(c[0], None, c[2], c[3], c[4]) for c in candidate}
                    bag_cmp = {c if c[:4] not in unspecified else c[:4] + (None,) for c in bag}
                    if bag_cmp == want_cmp:
                        matched = True
                        break
                if not matched:
                    mismatches.append({"kind": f"chain-dynamics:{rx}",
                                       "detail": f"{cname}: probe factors {sorted(map(str, bag))} match none of the predicted {[sorted(map(str, c)) for c in want]}"})
                repl = {a: sp.S.One for a in apps}
                repl.update({s: sp.S.One for s in expr.free_symbols if s.name.startswith("q_{")})
                stripped = expr.xreplace(repl)
                base = twin_model.components.get(cname)
                if base is None:
                    mismatches.append({"kind": f"chain-structure:{rx}", "detail": f"{cname}: no such dynamics-free chain"})
                    continue
                # the chain must be the dynamics-free chain times the library lineshapes of its own nodes,
                # each evaluated on that node's variables (daughters in either order)
                candidates = chain_lib.get(cname, [[]])
                ok = False
                for nodes in candidates:
                    options = [[]]
                    for fn_, particle_, m_, (a_, b_), l_ in nodes:
                        factors = []
                        for x_, y_ in ((a_, b_), (b_, a_)):
                            try:
                                factors.append(fn_(particle_, _variable_set(m_, x_, y_, l_))[0])
                            except Exception:  # noqa: BLE001, S112
                                continue
                        options = [o + [f] for o in options for f in factors]
                    for option in options:
                        product = base
                        for f in option:
                            product = product * f
                        if product == stripped:
                            ok = True
                            break
                    if ok:
                        break
                if not ok:
                    mismatches.append({"kind": f"chain-structure:{rx}",
                                       "detail": f"{cname}: the chain is not the dynamics-free chain times the lineshapes of its own nodes evaluated on their own variables"})
            if set(model.components) != set(twin_model.components):
                mismatches.append({"kind": f"component-set:{rx}", "detail": "component names differ from dynamics-free twin"})
            # (c) parameter defaults of library builders
            defaults = {getattr(k, "name", str(k)): v for k, v in model.parameter_defaults.items()}
            for pname, owners in lib_owners.items():
                particle = particles[pname]
                ident = particle.latex or particle.name
                needs_mass = owners & {"bw", "bw_ff", "bw_analytic", "bw_swave", "bw_ffonly", "bw_edw"}
                if needs_mass:
                    for label, want_value in ((f"m_{{{ident}}}", particle.mass), (Rf"\Gamma_{{{ident}}}", particle.width)):
                        if label not in defaults:
                            mismatches.append({"kind": f"default-missing:{rx}:{pname}", "detail": label})
                        elif defaults[label] != want_value:
                            mismatches.append({"kind": f"default-value:{rx}:{pname}",
                                               "detail": f"{label}={defaults[label]} but the particle table says {want_value}"})
                if owners & {"bw_ff", "bw_analytic", "bw_swave", "bw_ffonly", "bw_edw", "non_dynamic_ff"}:
                    label = f"d_{{{ident}}}"
                    if label in defaults and defaults[label] != 1:
                        mismatches.append({"kind": f"default-value:{rx}:{pname}", "detail": f"{label}={defaults[label]} != 1"})
            # (d) the parameters are those of the dynamics-free model plus those of the builders that own
            #     a node of this model: nothing of an earlier assignment or an abandoned formulate() remains
            def label_of(key):
                return getattr(key, "name", str(key))

            expected_parameters = {label_of(k) for k in twin_model.parameter_defaults}
            for call in predicted_calls:
                probe = registry["probe" + call[0]]
                resonance = call[1]
                expected_parameters.add(f"q_{{{call[0]},{resonance}}}")
                if getattr(probe, "shared", False):
                    expected_parameters.add("q_{shared}")
                if getattr(probe, "exotic", False):
                    expected_parameters |= {f"q_{{n,{resonance}}}", f"q_{{g,{resonance}}}", f"q_{{a,{resonance}}}[0]"}
            computable = True
            for candidates in chain_lib.values():
                for nodes in candidates:
                    for fn_, particle_, m_, (a_, b_), l_ in nodes:
                        try:
                            expected_parameters |= {label_of(k) for k in fn_(particle_, _variable_set(m_, a_, b_, l_))[1]}
                        except Exception:  # noqa: BLE001
                            computable = False
            if computable and set(defaults) != expected_parameters:
                extra = sorted(set(defaults) - expected_parameters)
                missing = sorted(expected_parameters - set(defaults))
                mismatches.append({"kind": f"parameter-set:{rx}",
                                   "detail": f"parameters that belong to no assigned builder: {extra[:4]}; missing: {missing[:4]}"})
            ev.update(n_predicted_calls=len(predicted_calls), n_observed_calls=len(zc.PROBE_LOG),
                      n_chains=len(chains), lib=sorted(lib_owners),
                      owners=sorted(set(ref.owner.values())))
            if mismatches:
                ev["mismatch"] = mismatches
        events.append(ev)
    return {"events": events, "faults": faults, "ref_probes": ref.probes, "cfg": CFG,
            "n_decays": len(ref.owner), "n_transitions": len(transitions)}
