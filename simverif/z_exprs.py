"""Pool of library expressions (every expression class ampform defines) for C15.

Built on demand inside a forked child (never in the zygote).  Deterministic.
"""

from __future__ import annotations

import dataclasses
import importlib
import inspect
import pkgutil
import warnings


def _deprecated_class():
    """A subclass of the deprecated UnevaluatedExpression (module level => picklable)."""
    global LegacyExpr  # noqa: PLW0603
    if "LegacyExpr" in globals():
        return globals()["LegacyExpr"]
    with warnings.catch_warnings():
        warnings.simplefilter("ignore")
        from ampform.sympy.deprecated import (  # noqa: PLC0415
            UnevaluatedExpression,
            create_expression,
            implement_doit_method,
        )

        @implement_doit_method
        class LegacyExpr(UnevaluatedExpression):
            def __new__(cls, x, y, n, **hints):
                return create_expression(cls, x, y, n, **hints)

            def evaluate(self):
                x, y, n = self.args
                return (x + y) ** n

            def _latex(self, printer, *args) -> str:
                return "legacy"

    LegacyExpr.__module__ = __name__
    LegacyExpr.__qualname__ = "LegacyExpr"
    globals()["LegacyExpr"] = LegacyExpr
    return LegacyExpr


def __getattr__(name: str):
    """Let pickle find LegacyExpr in a process that has not built the pool yet."""
    if name == "LegacyExpr":
        return _deprecated_class()
    if name in ("UserFunctorExpr", "UserScaledPower", "FormFactor"):
        _user_classes()
        return globals()[name]
    raise AttributeError(name)


def _user_classes():
    """Expression classes a user defines with the public @unevaluated decorator (module level => picklable)."""
    if "UserFunctorExpr" in globals():
        return globals()["UserFunctorExpr"], globals()["UserScaledPower"]
    from typing import Any, Callable  # noqa: PLC0415

    import sympy as sp  # noqa: PLC0415

    from ampform.sympy import argument, unevaluated  # noqa: PLC0415

    @unevaluated
    class UserFunctorExpr(sp.Expr):  # the example of the decorator's docstring: a *required* non-SymPy argument
        x: Any
        y: Any
        functor: Callable = argument(sympify=False)

        def evaluate(self) -> sp.Expr:
            return self.functor(self.x, self.y)

    @unevaluated
    class UserScaledPower(sp.Expr):  # a SymPy field declared after a defaulted non-SymPy field
        base: Any
        unit: str = argument(default="m", sympify=False)
        power: Any = 2

        def evaluate(self) -> sp.Expr:
            return self.base**self.power

    @unevaluated
    class FormFactor(sp.Expr):  # a user's own class that happens to be named like a library class
        s: Any
        scale: Any = 1

        def evaluate(self) -> sp.Expr:
            return sp.exp(-self.s / self.scale)

    for cls in (UserFunctorExpr, UserScaledPower, FormFactor):
        cls.__module__ = __name__
        cls.__qualname__ = cls.__name__
        globals()[cls.__name__] = cls
    return UserFunctorExpr, UserScaledPower


def user_functor(x, y):
    return x**2 + y


def library_pool(with_doit: bool = True) -> list[dict]:  # noqa: PLR0914, PLR0915
    import sympy as sp  # noqa: PLC0415

    from ampform.dynamics import EnergyDependentWidth, relativistic_breit_wigner_with_ff  # noqa: PLC0415
    from ampform.dynamics import form_factor as ff  # noqa: PLC0415
    from ampform.dynamics import kmatrix  # noqa: PLC0415
    from ampform.dynamics import phasespace as ps  # noqa: PLC0415
    from ampform.kinematics import angles, lorentz  # noqa: PLC0415
    from ampform.kinematics import phasespace as kps  # noqa: PLC0415
    from ampform.sympy import PoolSum, UnevaluatableIntegral  # noqa: PLC0415
    from ampform.sympy import _array_expressions as ae  # noqa: PLC0415
    from ampform.sympy.math import ComplexSqrt  # noqa: PLC0415

    s, m0, w0, m1, m2, d, x, y, z = sp.symbols("s m0 Gamma0 m1 m2 d x y z")
    s_pos = sp.Symbol("s", positive=True)
    L = sp.Symbol("L", integer=True, nonnegative=True)
    beta, angle = sp.symbols("beta alpha", real=True)
    p0, p1, p2 = (lorentz.create_four_momentum_symbol(i) for i in range(3))
    p12 = ae.ArraySum(p1, p2)
    n_events = lorentz.ArraySize(p0)
    pool: list[tuple[str, object]] = []

    def add(name, expr):
        pool.append((name, expr))

    for cls in (ps.PhaseSpaceFactor, ps.PhaseSpaceFactorAbs, ps.PhaseSpaceFactorComplex,
                ps.PhaseSpaceFactorSWave, ps.EqualMassPhaseSpaceFactor, ps.BreakupMomentumSquared):
        add(cls.__name__, cls(s, m1, m2))
        add(cls.__name__ + ":named", cls(s_pos, m1, m2, name="R"))
    add("PhaseSpaceFactor(nested)", ps.PhaseSpaceFactor(ps.BreakupMomentumSquared(s, m1, m2), m1, m2))
    for phsp in (ps.PhaseSpaceFactor, ps.PhaseSpaceFactorSWave, ps.EqualMassPhaseSpaceFactor):
        add(f"EnergyDependentWidth:{phsp.__name__}",
            EnergyDependentWidth(s, m0, w0, m1, m2, 1, d, phsp_factor=phsp))
    add("EnergyDependentWidth:named", EnergyDependentWidth(s, m0, w0, m1, m2, L, d, name="W"))
    add("bw_with_ff", relativistic_breit_wigner_with_ff(s, m0, w0, m1, m2, 2, d, phsp_factor=ps.PhaseSpaceFactorSWave))
    add("FormFactor", ff.FormFactor(s, m1, m2, 2, d))
    add("FormFactor:L", ff.FormFactor(s, m1, m2, L))
    add("BlattWeisskopfSquared", ff.BlattWeisskopfSquared(z, 3))
    add("BlattWeisskopfSquared:L", ff.BlattWeisskopfSquared(ps.BreakupMomentumSquared(s, m1, m2) * d**2, L))
    add("SphericalHankel1", ff.SphericalHankel1(2, z))
    add("SphericalHankel1:L", ff.SphericalHankel1(L, z))
    add("_SymbolicSum", ff.SphericalHankel1(L, z).evaluate())
    for cls in (angles.Phi, angles.Theta, lorentz.Energy, lorentz.FourMomentumX, lorentz.FourMomentumY,
                lorentz.FourMomentumZ, lorentz.ThreeMomentum, lorentz.InvariantMass,
                lorentz.NegativeMomentum, lorentz.MinkowskiMetric, lorentz.BoostMatrix):
        add(cls.__name__, cls(p0))
        add(cls.__name__ + "(sum)", cls(p12))
    add("EuclideanNorm(ThreeMomentum)", lorentz.EuclideanNorm(lorentz.ThreeMomentum(p0)))
    add("EuclideanNormSquared(ThreeMomentum)", lorentz.EuclideanNormSquared(lorentz.ThreeMomentum(p12)))
    add("ArraySize", n_events)
    add("BoostZMatrix", lorentz.BoostZMatrix(beta, n_events=n_events))
    add("BoostZMatrix(expr)", lorentz.BoostZMatrix(
        lorentz.EuclideanNorm(lorentz.ThreeMomentum(p12)) / lorentz.Energy(p12), n_events=lorentz.ArraySize(p12)))
    add("RotationYMatrix", lorentz.RotationYMatrix(angle, n_events=n_events))
    add("RotationZMatrix", lorentz.RotationZMatrix(-angles.Phi(p12), n_events=n_events))
    add("BoostMatrix(Negative)", lorentz.BoostMatrix(lorentz.NegativeMomentum(p12)))
    for name, parent in (("BoostZMatrix", lorentz.BoostZMatrix(beta, n_events=n_events)),
                         ("BoostMatrix", lorentz.BoostMatrix(p0)),
                         ("RotationYMatrix", lorentz.RotationYMatrix(angle, n_events=n_events)),
                         ("RotationZMatrix", lorentz.RotationZMatrix(angle, n_events=n_events))):
        add(f"_{name}Implementation", parent.evaluate())
    add("_OnesArray", lorentz._OnesArray(n_events))  # noqa: SLF001
    add("_ZerosArray", lorentz._ZerosArray(n_events))  # noqa: SLF001
    add("Kibble", kps.Kibble(x, y, z, m0, m1, m2, sp.Symbol("m3")))
    add("Kallen", kps.Kallen(x, y**2, z))
    add("is_within_phasespace", kps.is_within_phasespace(x, y, m0, m1, m2, sp.Symbol("m3")))
    i, j = sp.symbols("i j", integer=True)
    add("PoolSum", PoolSum(x**i * ff.BlattWeisskopfSquared(z, j), (i, [0, 1, 2]), (j, [1, 3])))
    add("PoolSum(Rational)", PoolSum(sp.Abs(sp.IndexedBase("A")[i, j]) ** 2,
                                     (i, [sp.Rational(-1, 2), sp.Rational(1, 2)]), (j, [-1, 0, 1])))
    from ampform.helicity.align._spin import create_spin_range  # noqa: PLC0415

    add("PoolSum(float half-integers)", PoolSum(x**i * y**j, (i, create_spin_range(0.5)), (j, create_spin_range(1.5))))
    add("PoolSum(float)", PoolSum(sp.Abs(sp.IndexedBase("A")[i]) ** 2, (i, [-1.0, 0.0, 1.0])))
    add("UnevaluatableIntegral", UnevaluatableIntegral(ps.PhaseSpaceFactor(x, m1, m2) / (x - s), (x, m1**2, sp.oo)))
    add("ComplexSqrt", ComplexSqrt(x - ps.BreakupMomentumSquared(s, m1, m2)))
    add("ArraySum", ae.ArraySum(p0, p1, p2))
    add("ArrayAxisSum", ae.ArrayAxisSum(p12, axis=1))
    add("ArraySlice", ae.ArraySlice(p0, (slice(None), slice(1, 4))))
    add("ArrayMultiplication", ae.ArrayMultiplication(lorentz.BoostMatrix(p12), p1))
    add("MatrixMultiplication", ae.MatrixMultiplication(
        lorentz.RotationYMatrix(-angles.Theta(p12), n_events), lorentz.RotationZMatrix(-angles.Phi(p12), n_events)))
    add("compute_boost_chain", angles.Theta(ae.ArrayMultiplication(
        lorentz.BoostZMatrix(lorentz.EuclideanNorm(lorentz.ThreeMomentum(p12)) / lorentz.Energy(p12),
                             n_events=lorentz.ArraySize(lorentz.ThreeMomentum(p12))), p1)))
    add("RelativisticKMatrix", kmatrix.RelativisticKMatrix.formulate(n_channels=1, n_poles=2)[0, 0])
    add("NonRelativisticKMatrix", kmatrix.NonRelativisticKMatrix.formulate(n_channels=2, n_poles=1)[0, 1])
    add("RelativisticPVector", kmatrix.RelativisticPVector.formulate(n_channels=1, n_poles=2)[0])
    legacy = _deprecated_class()
    add("deprecated.UnevaluatedExpression", legacy(x, y, 3))
    add("deprecated.UnevaluatedExpression:named", legacy(x, ps.BreakupMomentumSquared(s, m1, m2), 2, name="lg"))

    add("deprecated.UnevaluatedExpression:empty name", legacy(x, y, 2, name=""))
    functor_cls, scaled_cls = _user_classes()
    add("user:required non-sympy argument", functor_cls(x, ps.BreakupMomentumSquared(s, m1, m2), functor=user_functor))
    add("user:sympy field after defaulted attribute", scaled_cls(x + y, "km", 3))
    add("user:nested", 1 + scaled_cls(functor_cls(x, y, user_functor), power=sp.Rational(1, 2)) ** 2)
    add("user:same name as library class", globals()["FormFactor"](s, 3) + ff.FormFactor(s, m1, m2, 1, d))
    add("ArrayElement", ae.ArrayElement(p0, (0, 1)))
    shaped = ae.ArraySymbol("P", shape=(10, 4))
    add("ArraySlice(step)", ae.ArraySlice(p0, (slice(None, None, 2), 0)))
    add("ArraySlice(step,range)", ae.ArraySlice(p12, (slice(1, 9, 3), slice(None))))
    add("ArraySlice(known shape)", ae.ArraySlice(shaped, (slice(None), slice(1, 4))))
    add("ArraySlice(known shape,step)", ae.ArraySlice(shaped, (slice(0, 10, 2), 3)))
    add("ArrayElement(known shape)", ae.ArrayElement(shaped, (2, 1)))
    add("ArrayAxisSum(known shape)", ae.ArrayAxisSum(shaped, axis=0))
    add("ArraySlice(nested)", sp.sqrt(ae.ArrayAxisSum(ae.ArraySlice(p12, (slice(None), slice(1, 4))) ** 2, axis=1)))
    out = []
    for name, expr in pool:
        out.append({"name": name, "expr": expr, "unfolded": False, "cls": type(expr).__name__})
    if with_doit:
        for name, expr in pool:
            try:
                unfolded = expr.doit()
            except Exception:  # noqa: BLE001, S112
                continue
            if unfolded != expr:
                out.append({"name": name + ".doit()", "expr": unfolded, "unfolded": True, "cls": type(expr).__name__})
    return out


def custom_phase_space(s, m1, m2, variant=1):
    """A user-defined phase-space factor (module level, hence picklable through functools.partial)."""
    import sympy as sp  # noqa: PLC0415

    from ampform.dynamics.phasespace import BreakupMomentumSquared  # noqa: PLC0415

    q2 = BreakupMomentumSquared(s, m1, m2)
    return sp.sqrt(q2) / sp.sqrt(s) if variant == 1 else sp.sqrt(sp.Abs(q2)) / (8 * sp.pi * sp.sqrt(s))


def random_entry(seed) -> dict:
    """A seeded random composite of library expressions: 2-3 pool members combined by arithmetic,
    functions, nesting (one member substituted for a symbol of another) and PoolSum/indices."""
    import random  # noqa: PLC0415

    import sympy as sp  # noqa: PLC0415

    from ampform.sympy import PoolSum  # noqa: PLC0415

    rng = random.Random(f"random-expr:{seed}")
    pool = library_pool(with_doit=False)
    scalars = [e for e in pool if not e["expr"].atoms(sp.MatrixSymbol) and "Matrix" not in e["cls"]
               and "Array" not in e["cls"] and not e["name"].startswith(("ArraySum", "ArraySlice", "ThreeMomentum",
                                                                         "NegativeMomentum", "MinkowskiMetric", "_"))]
    picks = rng.sample(scalars, k=rng.choice([2, 3]))
    expr = picks[0]["expr"]
    names = [picks[0]["name"]]
    for other in picks[1:]:
        names.append(other["name"])
        op = rng.choice(["add", "mul", "pow", "nest", "abs", "sqrt", "frac", "number"])
        b = other["expr"]
        if op == "add":
            expr = expr + rng.choice([1, 2, sp.Rational(1, 2)]) * b
        elif op == "mul":
            expr = expr * b
        elif op == "pow":
            expr = expr ** rng.choice([2, -1, sp.Rational(1, 2)]) + b
        elif op == "abs":
            expr = sp.Abs(expr) ** 2 * b
        elif op == "sqrt":
            expr = sp.sqrt(expr + b)
        elif op == "frac":
            expr = expr / (1 + b**2)
        elif op == "number":
            # a partially evaluated expression: one symbol replaced by a number (Float, Rational, complex, pi)
            symbols = sorted((s for s in b.free_symbols if isinstance(s, sp.Symbol) and not s.is_integer),
                             key=lambda s: s.name)  # never an angular momentum: Sum(..., (k, 0, pi)) does not unfold
            value = rng.choice([sp.Float("1.25"), sp.Rational(3, 7), 2 + sp.I, sp.pi, sp.Integer(0), sp.Float("-0.5")])
            expr = expr + (b.xreplace({rng.choice(symbols): value}) if symbols else b)
        else:
            symbols = sorted((s for s in expr.free_symbols if isinstance(s, sp.Symbol) and not s.is_integer),
                             key=lambda s: s.name)
            if symbols and not b.atoms(sp.Indexed):
                expr = expr.xreplace({rng.choice(symbols): b})
            else:
                expr = expr - b
    if rng.random() < 0.3:
        k = sp.Symbol("k_idx", integer=True)
        expr = PoolSum(expr * sp.Symbol("w")**k, (k, [0, 1, 2][: rng.choice([2, 3])]))
    # the glue is plain SymPy, whose constructors are not idempotent on every expression (Abs(1/x) vs
    # 1/Abs(x), ...): like unfolded results these entries are compared through the reconstruction N
    return {"name": "random:" + "|".join(names), "expr": expr, "unfolded": True, "cls": "random-composite"}


def twin_entry(name: str) -> dict:
    """One member of a family of expressions that differ in a single non-SymPy attribute, nested
    below Add/Mul/Pow.  Built on demand and alone: constructing two members in one process lets
    SymPy's construction cache see both, which is exactly the situation a *reader* may be in."""
    import sympy as sp  # noqa: PLC0415

    from ampform.dynamics import EnergyDependentWidth  # noqa: PLC0415
    from ampform.dynamics import phasespace as ps  # noqa: PLC0415

    s, m0, w0, m1, m2, d = sp.symbols("s m0 Gamma0 m1 m2 d")
    _, family, member = name.split(":")
    if family == "bw":
        kwargs = {"plain": {}, "named": {"name": R"\Gamma_X"}, "swave": {"phsp_factor": ps.PhaseSpaceFactorSWave}}[member]
        width = EnergyDependentWidth(s, m0, w0, m1, m2, 2, d, **kwargs)
        expr = m0 * w0 / (m0**2 - s - sp.I * m0 * width)
        cls = "EnergyDependentWidth"
    else:
        rho = {"plain": lambda: ps.PhaseSpaceFactor(s, m1, m2), "named": lambda: ps.PhaseSpaceFactor(s, m1, m2, name="R"),
               "abs": lambda: ps.PhaseSpaceFactorAbs(s, m1, m2)}[member]()
        expr = 1 + 2 * rho**2
        cls = type(rho).__name__
    return {"name": name, "expr": expr, "unfolded": False, "cls": cls}


def pool_entry(k) -> dict:
    """Entry ``k`` of the doubled pool: k < N folded, k >= N the unfolded form of entry k-N."""
    if isinstance(k, str) and k.startswith("twin:"):
        return twin_entry(k)
    if isinstance(k, str) and k.startswith("rand:"):
        entry = random_entry(k[5:].rstrip("u"))
        if k.endswith("u"):
            unfolded = entry["expr"].doit()
            if unfolded != entry["expr"]:
                return {"name": entry["name"] + ".doit()", "expr": unfolded, "unfolded": True, "cls": entry["cls"]}
        return entry
    pool = library_pool(with_doit=False)
    n = len(pool)
    if isinstance(k, str):
        return next(e for e in pool if e["name"] == k)
    k %= 2 * n
    if k < n:
        return pool[k]
    entry = pool[k - n]
    unfolded = entry["expr"].doit()
    if unfolded == entry["expr"]:
        return entry
    return {"name": entry["name"] + ".doit()", "expr": unfolded, "unfolded": True, "cls": entry["cls"]}


def classes_in_package() -> list[str]:
    import sympy as sp  # noqa: PLC0415

    import ampform  # noqa: PLC0415

    names = set()
    for info in pkgutil.walk_packages(ampform.__path__, "ampform."):
        try:
            module = importlib.import_module(info.name)
        except Exception:  # noqa: BLE001, S112
            continue
        for name, obj in vars(module).items():
            if inspect.isclass(obj) and issubclass(obj, sp.Basic) and obj.__module__ == module.__name__:
                names.add(name)
    return sorted(names)


def classes_covered(pool: list[dict]) -> list[str]:
    import sympy as sp  # noqa: PLC0415

    covered = set()
    for entry in pool:
        for node in sp.preorder_traversal(entry["expr"]):
            if type(node).__module__.startswith(("ampform", "simverif")):
                covered.add(type(node).__name__)
                for base in type(node).__mro__:
                    if base.__module__.startswith("ampform"):
                        covered.add(base.__name__)
    return sorted(covered)


def is_dataclass_expr(obj) -> bool:
    return dataclasses.is_dataclass(obj)
