"""Canonical, process-independent digests of SymPy/ampform objects (DESIGN §2.5).

Runs inside zygote children (imports sympy).  ``digest(obj)`` is a Merkle hash that
keeps order (tuples, dicts, args), distinguishes classes by qualified name, symbols by
name *and* assumptions, ampform dataclass nodes also by their non-SymPy attributes,
and renumbers ``Dummy`` symbols by first occurrence.  ``normalize`` is the
fixed-point reconstruction ``N`` used wherever unfolded expressions are compared.
"""

from __future__ import annotations

import dataclasses
import hashlib
import inspect
from collections import abc

import sympy as sp


def _h(*parts: str) -> str:
    m = hashlib.sha256()
    for p in parts:
        m.update(p.encode())
        m.update(b"\x00")
    return m.hexdigest()[:32]


def _qualname(cls) -> str:
    return f"{getattr(cls, '__module__', None)}.{getattr(cls, '__qualname__', cls.__name__)}"


def _is_ampform_dataclass(obj) -> bool:
    return dataclasses.is_dataclass(obj) and isinstance(obj, sp.Basic)


def non_sympy_fields(obj) -> list[tuple[str, object]]:
    if not _is_ampform_dataclass(obj):
        return []
    out = []
    for f in dataclasses.fields(obj):
        if not f.metadata.get("sympify", True):
            out.append((f.name, getattr(obj, f.name, "<unset>")))
    return out


def _plain(value) -> str:
    """Rendering of a non-SymPy attribute value."""
    if value is None or isinstance(value, (bool, int, float, complex, str)):
        return f"{type(value).__name__}:{value!r}"
    if inspect.isclass(value):
        return f"class:{_qualname(value)}"
    tag = getattr(value, "verif_tag", None)
    if tag is not None:
        return f"probe:{tag}"
    if inspect.isfunction(value) or inspect.ismethod(value) or inspect.isbuiltin(value):
        return f"function:{_qualname(value)}"
    return f"object:{_qualname(type(value))}"


class Canon:
    def __init__(self, rename: dict | None = None, sort_commutative: bool = False,
                 strict_dummies: bool = False) -> None:
        self.rename = rename or {}
        self.sort_commutative = sort_commutative
        self.strict_dummies = strict_dummies
        self.memo: dict[int, str] = {}
        self.keep: list = []  # keep objects alive so that ids stay unique
        self.dummies: dict = {}

    def _dummy_index(self, d) -> int:
        if d not in self.dummies:
            self.dummies[d] = len(self.dummies)
        return self.dummies[d]

    def number_dummies(self, obj, _seen=None) -> None:
        """Pre-order numbering so that memoisation cannot change the indices.

        Own traversal (not ``preorder_traversal``/``has``): objects damaged by a faulty
        round trip may carry non-SymPy values in ``args``.
        """
        if _seen is None:
            _seen = set()
        if isinstance(obj, sp.Basic):
            if id(obj) in _seen:
                return
            _seen.add(id(obj))
            if isinstance(obj, sp.Dummy):
                self._dummy_index(obj)
            for arg in obj.args:
                self.number_dummies(arg, _seen)
        elif isinstance(obj, abc.Mapping):
            for k, v in obj.items():
                self.number_dummies(k, _seen)
                self.number_dummies(v, _seen)
        elif isinstance(obj, (tuple, list)):
            for x in obj:
                self.number_dummies(x, _seen)

    def d(self, obj) -> str:
        key = id(obj)
        hit = self.memo.get(key)
        if hit is not None:
            return hit
        out = self._d(obj)
        self.memo[key] = out
        self.keep.append(obj)
        return out

    def _assumptions(self, s) -> str:
        return ",".join(f"{k}={v}" for k, v in sorted(s.assumptions0.items()))

    def _d(self, obj) -> str:  # noqa: C901, PLR0911, PLR0912
        if isinstance(obj, sp.Dummy):
            if self.strict_dummies:  # models: a Dummy is a different symbol in every process
                return _h("Dummy!", obj.name, str(obj.dummy_index), self._assumptions(obj))
            return _h("Dummy", str(self._dummy_index(obj)), self._assumptions(obj))
        if isinstance(obj, sp.Symbol):
            name = self.rename.get(obj.name, obj.name)
            return _h("Symbol", _qualname(type(obj)), name, self._assumptions(obj))
        if isinstance(obj, sp.Basic):
            extras = [f"{n}={_plain(v)}" for n, v in non_sympy_fields(obj)]
            if not obj.args:
                return _h("Atom", self._clsname(obj), sp.srepr(obj), *extras)
            children = [self.d(a) for a in obj.args]
            if self.sort_commutative and isinstance(obj, (sp.Add, sp.Mul)):
                children.sort()
            return _h("Node", self._clsname(obj), "|".join(extras), *children)
        if isinstance(obj, sp.MatrixBase):
            return _h("Matrix", _qualname(type(obj)), str(obj.shape), *[self.d(x) for x in obj])
        if obj is None or isinstance(obj, (bool, int, float, complex, str)):
            return _h("py", _plain(obj))
        if isinstance(obj, (tuple, list)):
            return _h("seq", type(obj).__name__, *[self.d(x) for x in obj])
        if isinstance(obj, (set, frozenset)):
            return _h("set", *sorted(self.d(x) for x in obj))
        if isinstance(obj, abc.Mapping):
            parts = []
            for k, v in obj.items():
                parts.append(self.d(k))
                parts.append(self.d(v))
            return _h("map", *parts)
        return _h("opaque", _plain(obj))

    @staticmethod
    def _clsname(obj) -> str:
        cls = type(obj)
        if isinstance(obj, sp.core.function.AppliedUndef):
            return f"AppliedUndef:{cls.__name__}"
        return _qualname(cls)


def digest(obj, rename: dict | None = None, sort_commutative: bool = False,
           strict_dummies: bool = False) -> str:
    c = Canon(rename, sort_commutative, strict_dummies)
    c.number_dummies(obj)
    return c.d(obj)


def rebuild(e):
    """One bottom-up reconstruction step."""
    if not isinstance(e, sp.Basic) or not e.args:
        return e
    args = [rebuild(a) for a in e.args]
    try:
        if _is_ampform_dataclass(e):
            it = iter(args)
            values = []
            for f in dataclasses.fields(e):
                if f.metadata.get("sympify", True):
                    values.append(next(it))
                else:
                    values.append(getattr(e, f.name))
            return type(e)(*values)
        return e.func(*args)
    except Exception:  # noqa: BLE001  not every SymPy class is rebuildable
        return e


def normalize(e, max_rounds: int = 6):
    """``N``: reconstruct bottom-up until the digest is stable."""
    previous = digest(e)
    for _ in range(max_rounds):
        e = rebuild(e)
        current = digest(e)
        if current == previous:
            break
        previous = current
    return e


def ndigest(e) -> str:
    return digest(normalize(e))


def first_difference(a, b, path: str = "") -> str | None:
    """Human-readable location of the first difference (same-process diagnosis)."""
    if digest(a) == digest(b):
        return None
    if isinstance(a, sp.Basic) and isinstance(b, sp.Basic):
        if type(a) is not type(b) or len(a.args) != len(b.args) or not a.args:
            return f"{path}: {sp.srepr(a)[:160]} != {sp.srepr(b)[:160]}"
        if non_sympy_fields(a) != non_sympy_fields(b):
            return f"{path}: non-sympy attributes {non_sympy_fields(a)} != {non_sympy_fields(b)}"
        for i, (x, y) in enumerate(zip(a.args, b.args)):
            diff = first_difference(x, y, f"{path}/{type(a).__name__}.args[{i}]")
            if diff:
                return diff
        return f"{path}: {type(a).__name__} differs"
    if isinstance(a, abc.Mapping) and isinstance(b, abc.Mapping):
        ka, kb = list(a), list(b)
        if [digest(k) for k in ka] != [digest(k) for k in kb]:
            return f"{path}: keys/order {[str(k) for k in ka][:12]} != {[str(k) for k in kb][:12]}"
        for k, k2 in zip(ka, kb):
            diff = first_difference(a[k], b[k2], f"{path}[{k}]")
            if diff:
                return diff
    if isinstance(a, (tuple, list)) and isinstance(b, (tuple, list)) and len(a) == len(b):
        for i, (x, y) in enumerate(zip(a, b)):
            diff = first_difference(x, y, f"{path}[{i}]")
            if diff:
                return diff
    return f"{path}: {str(a)[:160]!r} != {str(b)[:160]!r}"
