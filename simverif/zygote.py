"""Zygote interpreter: imports everything, preloads pools, never executes an op.

Started as ``python -m simverif.zygote <profile> <H0|H7|HU>`` with PYTHONHASHSEED set
by the parent.  Protocol: one JSON object per line on stdin/stdout.  Every request is
executed in a ``fork()`` of this process, so every simulated process starts from the
same pristine memory image.
"""

from __future__ import annotations

import faulthandler
import importlib
import json
import os
import select
import signal
import sys
import time
import traceback


def _setup_paths() -> str:
    repo = os.environ.get("VERIF_REPO", "/repo")
    src = os.path.join(repo, "src")
    sys.path.insert(0, src)
    return src


def _child(mod, fn: str, args: dict, wfd: int, timeout: float) -> None:
    try:
        faulthandler.dump_traceback_later(timeout + 5, exit=True)
        try:
            # unpickling interleaved bytes of two in-place writers can ask for a memo of billions of
            # entries: let such an allocation fail at once (MemoryError) instead of zeroing 30 GB
            import resource  # noqa: PLC0415

            limit = int(os.environ.get("VERIF_CHILD_AS_LIMIT", 8 << 30))
            resource.setrlimit(resource.RLIMIT_AS, (limit, limit))
        except (ImportError, ValueError, OSError):
            pass
        devnull = os.open(os.devnull, os.O_WRONLY)
        os.dup2(devnull, 1)
        if not os.environ.get("VERIF_DEBUG"):
            os.dup2(devnull, 2)
        try:
            result = {"ok": getattr(mod, fn)(**args)}
        except BaseException as exc:  # noqa: BLE001  harness failure, not a violation
            result = {"harness_error": f"{type(exc).__name__}: {exc}",
                      "traceback": traceback.format_exc()[-4000:]}
        data = json.dumps(result, default=str).encode()
        view = memoryview(data)
        while view:
            n = os.write(wfd, view)
            view = view[n:]
    finally:
        os._exit(0)


def _serve(mod, request: dict) -> dict:
    timeout = float(request.get("timeout", 120))
    rfd, wfd = os.pipe()
    pid = os.fork()
    if pid == 0:
        os.close(rfd)
        _child(mod, request["fn"], request.get("args", {}), wfd, timeout)
    os.close(wfd)
    chunks = []
    deadline = time.monotonic() + timeout
    timed_out = False
    while True:
        remaining = deadline - time.monotonic()
        if remaining <= 0:
            timed_out = True
            break
        ready, _, _ = select.select([rfd], [], [], remaining)
        if not ready:
            timed_out = True
            break
        data = os.read(rfd, 1 << 20)
        if not data:
            break
        chunks.append(data)
    os.close(rfd)
    if timed_out:
        try:
            os.kill(pid, signal.SIGKILL)
        except ProcessLookupError:
            pass
    _, status = os.waitpid(pid, 0)
    if timed_out:
        return {"harness_error": f"timeout after {timeout}s"}
    raw = b"".join(chunks)
    if not raw:
        return {"harness_error": f"child died without result (status {status})"}
    try:
        return json.loads(raw)
    except ValueError as exc:
        return {"harness_error": f"bad child result: {exc}"}


def main() -> None:
    profile, cfg = sys.argv[1], sys.argv[2]
    if cfg == "HU":
        # emulate "PYTHONHASHSEED unset" deterministically: the interpreter was started
        # with a fixed seed (set/dict orders replay) but ampform sees no variable.
        os.environ.pop("PYTHONHASHSEED", None)
    src = _setup_paths()
    os.environ["PYTHONDONTWRITEBYTECODE"] = "1"
    sys.dont_write_bytecode = True
    import ampform  # noqa: PLC0415

    if not os.path.realpath(ampform.__file__).startswith(os.path.realpath(src)):
        print(json.dumps({"harness_error": f"ampform imported from {ampform.__file__}"}), flush=True)
        sys.exit(2)
    mod = importlib.import_module(f"simverif.{profile}")
    try:
        info = mod.preload(cfg)
    except BaseException as exc:  # noqa: BLE001
        print(json.dumps({"harness_error": f"preload: {type(exc).__name__}: {exc}",
                          "traceback": traceback.format_exc()[-4000:]}), flush=True)
        sys.exit(2)
    print(json.dumps({"ready": True, "cfg": cfg, "info": info}), flush=True)
    # The zygote itself never touches a request: it forks a handler, which reads one request, forks the
    # simulated process and relays its result.  So the memory image a simulated process starts from is
    # a function of (code, hash seed, request) and not of the requests this zygote served before --
    # behaviour that depends on object addresses (id()-keyed caches) replays in any other zygote.
    while True:
        pid = os.fork()
        if pid == 0:
            code = 1
            try:
                code = _handle_one(mod)
            finally:
                os._exit(code)
        _, status = os.waitpid(pid, 0)
        if not (os.WIFEXITED(status) and os.WEXITSTATUS(status) == 0):
            break


def _handle_one(mod) -> int:
    """Handler process: one request line from fd 0, one response line to fd 1; 7 = stop serving."""
    buf = b""
    while not buf.endswith(b"\n"):
        chunk = os.read(0, 1 << 16)
        if not chunk:
            return 7
        buf += chunk
    line = buf.strip()
    if not line:
        return 0
    request = json.loads(line)
    if request.get("fn") == "__exit__":
        return 7
    response = _serve(mod, request)
    view = memoryview((json.dumps(response, default=str) + "\n").encode())
    while view:
        n = os.write(1, view)
        view = view[n:]
    return 0


if __name__ == "__main__":
    main()
