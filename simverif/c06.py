"""C06, driver side: op histories over builders, processes and hash seeds (DESIGN §4.2)."""

from __future__ import annotations

import copy
import json
import shutil

from . import CHECK_VERSION, core
from .driver import HarnessError, ZygoteSet, simroot

PROP = "C06"
PROFILE = "z_life"
ASSUMPTIONS = [
    "a fork of a zygote that has only imported ampform and loaded the reaction pool is as good as a fresh interpreter (all ampform functools caches are empty there; reported in coverage.zygote_nonempty_caches)",
    "two builders with equal observable configuration (config attributes, per-decay dynamics, registered topologies, naming flags, reaction, builder class) are obliged to return identical models",
    "identity of models = equality of order-preserving canonical digests of all six attributes (canon is trusted harness code); exception outcomes are compared by class only",
    "formulate() calls into which a fault was injected (probe raise, interrupt) are not compared; the next call on that builder is",
    "inputs are a fixed pool of qrules reactions; the history, interleaving, process and hash-seed dimensions are what is sampled",
]

RX_WEIGHTS = {
    "gpp_h": 3, "gpp_h+r": 4, "gpp1_h": 2, "gpp1_h+r": 4, "gpp_c": 2, "gpp_c+r": 2,
    "lc_h": 4, "lc_h+r": 4, "lc_c": 1, "j3pi_h": 3, "j3pi_h+r": 3, "ksp_h": 2, "ksp_h+r": 2,
    "ppg_h": 2, "ppg_h+r": 2, "ppg_c": 1, "psi4_h": 1, "d3pi_h": 2, "d3pi_h+r": 2,
    "kkpi_h": 2, "kkpi_h+r": 2, "dkpp_h": 2, "dkpp_h+r": 2, "etac_c": 2, "etac_c+r": 1,
    "lc_h#1": 2, "lc_h#1+r": 1, "ksp_h#1": 2, "kkpi_h#1": 2, "kkpi_h#1+r": 1, "gpp_c#1": 2, "etac_c#1+r": 1,
    "gpp_h@x": 1, "gpp_h@x+r": 1, "lc_h@x": 1, "lc_h@x+r": 1, "d3pi_h@x": 1, "d3pi_h@x+r": 1,
}


def _twin(tag: str) -> str | None:
    """The same reaction with renamed intermediate particles (customised particle table), or back."""
    base, relabelled = (tag[:-2], "+r") if tag.endswith("+r") else (tag, "")
    if base.endswith("@x"):
        return base[:-2] + relabelled
    if base + "@x" in RX_WEIGHTS:
        return base + "@x" + relabelled
    return None

DYN = ["non_dynamic", "bw", "bw", "bw_ff", "bw_analytic", "bw_swave", "bw_ffonly", "bw_edw", "probeA", "probeB", "probeX",
       "probeS", "non_dynamic_ff"]
ALIGN = ["none", "axis", "dpd1", "dpd2", "dpd3", "dpd1.0", "dpd3.0"]


def _final_ids(tag: str) -> list[int]:
    return [0, 1, 2, 3] if tag.startswith("psi4") else ([1, 2, 3] if tag.endswith("+r") else [0, 1, 2])


def gen_config_op(rng, slot: int, tag: str, dyn=None, sel_range: int = 64) -> dict:
    kind = rng.choices(["align", "scalar", "stable", "helcoup", "naming", "assign", "permutate", "register", "align_inplace"],
                       weights=[5, 3, 4, 2, 2, 5, 1, 3 if "#" in tag else 1, 1 if tag.endswith("+r") else 0])[0]
    op = {"op": kind, "b": slot}
    if kind == "align":
        if tag.endswith("+r"):
            op["v"] = rng.choices(ALIGN, weights=[2, 1, 3, 3, 3, 1, 1])[0]
        else:
            op["v"] = rng.choices(ALIGN, weights=[3, 4, 1, 0, 0, 0, 0])[0]
    elif kind == "align_inplace":
        op["v"] = rng.choice([1, 2, 3])
    elif kind in ("scalar", "helcoup"):
        op["v"] = rng.random() < 0.6
    elif kind == "stable":
        ids = _final_ids(tag)
        r = rng.random()
        if r < 0.08:
            op["v"] = [ids[0], ids[0], ids[-1]]  # duplicates: the configuration is a set
        elif r < 0.2:
            op["v"] = None
        elif r < 0.55:
            op["v"] = ids
        elif r < 0.9:
            op["v"] = sorted(rng.sample(ids, k=rng.randrange(1, len(ids))))
        else:
            op["v"] = [ids[0], 9]  # id not in the final state: formulate fails after partial work
    elif kind == "naming":
        op["flag"] = rng.choice(["insert_parent_helicities", "insert_child_helicities", "insert_ls_combinations"])
        op["v"] = rng.random() < 0.5
    elif kind == "assign":
        sel_kind = rng.choices(["name", "decay", "tuple"], weights=[5, 2, 1])[0]
        op["sel"] = {"kind": sel_kind, "i": rng.randrange(sel_range), "n": rng.randrange(3)}
        op["dyn"] = rng.choice(dyn or DYN)
    elif kind == "register":
        op["t"] = rng.randrange(8)
        op["r"] = rng.randrange(1, 4)
    return op


def gen_formulate(rng, slot: int, fault_mode: bool) -> dict:
    op = {"op": "formulate", "b": slot}
    if fault_mode:
        r = rng.random()
        if r < 0.12:
            op["fault"] = {"kind": "probe_raise", "k": rng.choice([1, 1, 2, 3, 5, 8])}
        elif r < 0.22:
            line = int(10 ** rng.uniform(0, 4.4)) if rng.random() < 0.5 else rng.randrange(1, 22000)
            op["fault"] = {"kind": "interrupt", "line": line}
        elif r < 0.28:
            op["fault"] = {"kind": "nested", "k": rng.choice([1, 1, 2, 3, 5]), "inner": rng.randrange(3)}
    return op


def generate(seed_: int, run: int, reactions: list[str], wild_hash_seeds: bool = False, deep: bool = False) -> dict:
    rng = core.run_rng(PROP, seed_, run)
    cfg_pool = list(core.hash_configs(seed_, run))
    if wild_hash_seeds and run % 8 == 5:
        # thorough tier: every 8th run draws its own hash seeds instead of the 16 lanes' (costs zygote starts)
        wild = random_seed_rng = core.run_rng(PROP, seed_, run, "wild")
        cfg_pool = ["H0", f"H{wild.randrange(1, 2**31)}", f"H{random_seed_rng.randrange(1, 2**31)}",
                    f"HU{wild.randrange(1, 2**31)}"]
    tags = [t for t in RX_WEIGHTS if t in reactions]
    weights = [RX_WEIGHTS[t] for t in tags]
    fault_mode = rng.random() < 0.6
    # a run concentrates on 1-2 reaction families so that builders share cache entries
    focus = rng.choices(tags, weights=weights, k=rng.choice([1, 1, 2]))
    if _twin(focus[0]) in tags and rng.random() < 0.5:
        focus = [focus[0], _twin(focus[0])]  # equal under qrules' equality, different names
    relabelled = [t for t in tags if t.endswith("+r")]
    n_segments = rng.choice([1, 1, 2, 3])
    if deep and run % 3 == 0:  # thorough tier: every third history is long
        n_segments = rng.choice([2, 3, 4])
    # swarm knobs: few builder kinds and few selections per run => the same nodes get re-assigned
    dyn = rng.sample(DYN, k=rng.choice([2, 3, 4])) if rng.random() < 0.7 else DYN
    sel_range = rng.choice([1, 2, 3, 64])
    segments = []
    for _ in range(n_segments):
        cfg = rng.choice(cfg_pool)
        ops: list[dict] = []
        slots: dict[int, str] = {}
        n_builders = rng.choice([1, 2, 2, 3]) if not (deep and run % 3 == 0) else rng.choice([2, 3, 4])
        for slot in range(n_builders):
            tag = rng.choice(focus)
            slots[slot] = tag
            ops.append({"op": "new", "b": slot, "rx": tag, "copy": rng.random() < 0.4})
        for _ in range(rng.randrange(3, 13) if not (deep and run % 3 == 0) else rng.randrange(10, 30)):
            slot = rng.randrange(n_builders)
            r = rng.random()
            if r < 0.04 and relabelled:
                # churn: short-lived builders on deep copies of *other* reactions are created, aligned,
                # formulated and released, so that later objects may reuse their addresses
                for _ in range(rng.choice([2, 3])):
                    tag = rng.choice(relabelled) if rng.random() < 0.5 else rng.choice(tags)
                    extra = n_builders + rng.randrange(3)
                    how = rng.choice(["dpd1", "dpd2", "dpd3"]) if tag.endswith("+r") else "axis"
                    ops += [{"op": "new", "b": extra, "rx": tag, "copy": True},
                            {"op": "align", "b": extra, "v": how},
                            {"op": "formulate", "b": extra}, {"op": "drop", "b": extra}]
            elif r < 0.07:
                # blanket assignment: one builder kind for every resonance, formulated on two builders
                kind_for_all = rng.choice(dyn)
                other = rng.choice([b for b in range(n_builders) if slots[b] == slots[slot]])
                for target in {slot, other}:
                    for i in range(4):
                        ops.append({"op": "assign", "b": target, "sel": {"kind": "name", "i": i, "n": 0}, "dyn": kind_for_all})
                    ops.append(gen_formulate(rng, target, False))
            elif r < 0.12:
                # directed pattern: the same selection gets builder kind A, then kind B, with a
                # formulate() after each, on this builder or on another one of the same reaction
                sel = {"kind": rng.choice(["name", "name", "decay"]), "i": rng.randrange(sel_range), "n": 0}
                first, second = rng.choice(dyn), rng.choice(dyn)
                other = rng.choice([b for b in range(n_builders) if slots[b] == slots[slot]])
                ops += [{"op": "assign", "b": slot, "sel": sel, "dyn": first}, gen_formulate(rng, slot, False),
                        {"op": "assign", "b": other, "sel": sel, "dyn": second}, gen_formulate(rng, other, False)]
            elif r < 0.135:
                ops.append({"op": "edit_model", "b": slot, "i": rng.randrange(50)})
            elif r < 0.16:
                # unpickling a model in the middle of a history is one more way to warm caches
                ops += [{"op": "dump", "b": slot, "file": f"m{slot}.pkl"}, {"op": "load", "file": f"m{slot}.pkl"}]
            elif r < 0.45:
                ops.append(gen_config_op(rng, slot, slots[slot], dyn, sel_range))
            elif r < 0.92:
                op = gen_formulate(rng, slot, fault_mode)
                if (op.get("fault") or {}).get("kind") in ("probe_raise", "nested") and rng.random() < 0.85:
                    # a fault without workload tests nothing: make sure a probe is attached somewhere
                    ops.append({"op": "assign", "b": slot, "dyn": rng.choice(["probeA", "probeB"]),
                                "sel": {"kind": "name", "i": rng.randrange(sel_range), "n": 0}})
                ops.append(op)
                if op.get("fault") and rng.random() < 0.7:
                    ops.append(gen_formulate(rng, slot, False))  # what does the builder do right after the fault?
            elif fault_mode:
                ops.append({"op": "evict", "cache": rng.randrange(64)})
            else:
                ops.append(gen_formulate(rng, slot, False))
        for slot in range(n_builders):
            if rng.random() < 0.8:
                ops.append(gen_formulate(rng, slot, False))
        segments.append({"cfg": cfg, "ops": ops})
    return {"segments": segments, "fault_mode": fault_mode, "focus": focus}


# --------------------------------------------------------------------------- #
# execution + oracle
# --------------------------------------------------------------------------- #
def fresh_interpreter_reference(cfg: str, key: dict) -> dict:
    """The same reference, computed by exec'ing a new interpreter (thorough tier, sampled)."""
    import os  # noqa: PLC0415
    import subprocess  # noqa: PLC0415

    env = dict(os.environ, PYTHONHASHSEED=ZygoteSet.hashseed_of(cfg), PYTHONPATH=str(core.VERIF),
               VERIF_REPO=str(core.REPO), PYTHONDONTWRITEBYTECODE="1")
    proc = subprocess.run([*core.no_aslr_prefix(), core.PYTHON, "-m", "simverif.fresh", PROFILE, cfg, "reference", json.dumps({"key": key})],
                          env=env, cwd=str(core.VERIF), capture_output=True, text=True, timeout=600, check=False)
    if proc.returncode != 0 or not proc.stdout:
        raise HarnessError(f"fresh interpreter failed: {proc.stderr[-300:]}")
    return json.loads(proc.stdout)


class References:
    def __init__(self, zy: ZygoteSet, fresh_sample: bool = False) -> None:
        self.zy = zy
        self.memo: dict[tuple[str, str], dict] = {}
        self.computed = 0
        self.fresh_sample = fresh_sample
        self.fresh_checked = 0
        self.fresh_mismatch: list[dict] = []

    def get(self, cfg: str, key: dict) -> dict:
        k = (cfg, json.dumps(key, sort_keys=True))
        if k not in self.memo:
            self.memo[k] = self.zy.call(cfg, "reference", {"key": key}, timeout=180)
            self.computed += 1
            if self.fresh_sample and core.sha(k)[0] == "0":  # 1 key in 16
                fresh = fresh_interpreter_reference(cfg, key)
                self.fresh_checked += 1
                diff = _compare(self.memo[k], fresh)
                if diff:
                    self.fresh_mismatch.append({"cfg": cfg, "key": key, "attr": diff})
        return self.memo[k]


def execute(zy: ZygoteSet, refs: References, run: int, workload: dict, tag: str = "") -> dict:
    disk = simroot(f"c06-{run}{tag}")
    violations = []
    seg_out = []
    try:
        for si, seg in enumerate(workload["segments"]):
            res = zy.call(seg["cfg"], "run_segment", {"ops": seg["ops"], "disk": str(disk), "segment": si},
                          timeout=300)
            seg_out.append(res)
            for ev in res["events"]:
                if ev["op"] != "formulate" or "key" not in ev or ev.get("injected"):
                    continue
                where = f"segment {si} cfg={seg['cfg']} op {ev['i']} rx={ev['key']['rx']} " \
                        f"align={ev['key']['alignment']}"
                ref = refs.get(seg["cfg"], ev["key"])
                if "impose_error" in ref or "impose_mismatch" in ref:
                    raise HarnessError(f"reference could not impose configuration: {ref}")
                diff = _compare(ev["outcome"], ref)
                if diff:
                    violations.append({"sig": f"history:{diff}",
                                       "detail": f"{where}: differs from a pristine {seg['cfg']} process in "
                                                 f"'{diff}' ({_brief(ev['outcome'])} vs {_brief(ref)})"})
                if ev.get("repeat_diff"):
                    violations.append({"sig": f"repeat:{ev['repeat_diff']}",
                                       "detail": f"{where}: second formulate() without an op in between differs"})
                if seg["cfg"] != "H0":
                    ref0 = refs.get("H0", ev["key"])
                    diff0 = _compare(ref, ref0)
                    if diff0:
                        violations.append({"sig": f"hashseed:{diff0}",
                                           "detail": f"{where}: pristine {seg['cfg']} (PYTHONHASHSEED="
                                                     f"{zy.hashseed_of(seg['cfg'])}) and pristine H0 differ in "
                                                     f"'{diff0}' ({_brief(ref)} vs {_brief(ref0)})"})
    finally:
        shutil.rmtree(disk, ignore_errors=True)
    return {"segments": seg_out, "violations": violations}


def _compare(a: dict, b: dict) -> str | None:
    if "exception" in a or "exception" in b:
        return None if a.get("exception") == b.get("exception") else "exception"
    for attr in ("intensity", "amplitudes", "parameter_defaults", "kinematic_variables",
                 "components", "reaction_info"):
        if a.get(attr) != b.get(attr):
            return attr
    return None


def _brief(outcome: dict) -> str:
    if "exception" in outcome:
        return f"{outcome['exception']}({outcome.get('message', '')[:60]})"
    return "model"


def signature_of(out: dict) -> str:
    parts = []
    for seg in out["segments"]:
        parts.append(seg["cfg"])
        for ev in seg["events"]:
            parts.append((ev["op"], json.dumps(ev.get("key"), sort_keys=True) if "key" in ev else None,
                          ev.get("injected"), ev.get("op_error", "")[:20]))
    return core.sha(parts)[:20]


class Context:
    def __init__(self, zy: ZygoteSet, seed_: int, options: dict) -> None:
        self.zy = zy
        self.seed = seed_
        self.options = options
        self.info = zy.ensure("H0")
        self.refs = References(zy, fresh_sample=options.get("tier") == "thorough")

    def run(self, r: int) -> dict:
        workload = generate(self.seed, r, self.info["reactions"],
                            wild_hash_seeds=self.options.get("tier") == "thorough",
                            deep=self.options.get("tier") == "thorough")
        out = execute(self.zy, self.refs, r, workload)
        while self.refs.fresh_mismatch:
            mm = self.refs.fresh_mismatch.pop()
            out["violations"].append({"sig": f"fresh-interpreter:{mm['attr']}",
                                      "detail": f"cfg={mm['cfg']} rx={mm['key']['rx']}: a fork of the pristine zygote and a "
                                                f"newly exec'ed interpreter formulate different '{mm['attr']}'"})
        record = {"run": r, "violations": [], "stats": stats_of(workload, out),
                  "workload": workload if r < 2 else None}
        seen = set()
        for v in out["violations"]:
            if v["sig"] not in seen:
                seen.add(v["sig"])
                record["violations"].append(dict(v, workload=workload))
        return record

    def finish(self) -> dict:
        return {"references_computed": self.refs.computed, "fresh_checked": self.refs.fresh_checked,
                "zygote_nonempty_caches": self.info.get("nonempty_caches"),
                "caches": self.info.get("caches"), "reactions": self.info.get("reactions")}


def stats_of(workload: dict, out: dict) -> dict:
    faults = {"probe_raise": [0, 0], "interrupt": [0, 0], "evict": [0, 0], "failed_formulate": [0, 0],
              "nested_formulate": [0, 0]}
    keys = set()
    keys_by_cfg: dict[str, set] = {}
    formulates = compared = exceptions = repeats = after_failure = 0
    touched = set()
    sites: dict[str, int] = {}
    for seg in out["segments"]:
        for k, (a, f) in seg["faults"].items():
            faults[k][0] += a
            faults[k][1] += f
        touched.update(seg["caches_touched"])
        for s, n in seg["interrupt_sites"].items():
            sites[s] = sites.get(s, 0) + n
        failed_builders = set()
        for ev in seg["events"]:
            if ev["op"] != "formulate" or "key" not in ev:
                continue
            formulates += 1
            kj = json.dumps(ev["key"], sort_keys=True)
            keys.add(kj)
            keys_by_cfg.setdefault(seg["cfg"], set()).add(kj)
            if not ev.get("injected"):
                compared += 1
                if "exception" in ev["outcome"]:
                    exceptions += 1
                elif ev["key"]["rx"] in failed_builders:
                    after_failure += 1
            if ev.get("injected") or "exception" in ev.get("outcome", {}):
                failed_builders.add(ev["key"]["rx"])
            repeats += int(bool(ev.get("repeat_of_previous")))
    multi_cfg = 0
    all_cfg_keys = list(keys_by_cfg.values())
    if len(all_cfg_keys) > 1:
        multi_cfg = len(set.intersection(*all_cfg_keys)) if all_cfg_keys else 0
    return {
        "signature": signature_of(out), "segments": [s["cfg"] for s in workload["segments"]],
        "ops": sum(len(s["ops"]) for s in workload["segments"]),
        "formulates": formulates, "compared": compared, "legit_exceptions": exceptions,
        "repeats": repeats, "success_after_failure": after_failure, "faults": faults,
        "keys": sorted(core.sha(k)[:12] for k in keys), "caches_touched": sorted(touched),
        "interrupt_sites": sites, "keys_under_several_cfgs": multi_cfg,
        "fault_mode": workload["fault_mode"],
    }


# --------------------------------------------------------------------------- #
# shrinking / replay
# --------------------------------------------------------------------------- #
def minimise(zy: ZygoteSet, seed_: int, run: int, violation: dict, options: dict):
    refs = References(zy)
    sig = violation["sig"]
    workload = copy.deepcopy(violation["workload"])
    original = copy.deepcopy(violation["workload"])

    def fails(w) -> bool:
        try:
            out = execute(zy, refs, run, w, tag="-shrink")
        except HarnessError:
            return False
        return any(v["sig"] == sig for v in out["violations"])

    shrunk = False
    if not options.get("no_shrink"):
        budget = [int(options.get("shrink_budget", 120))]
        idx = list(range(len(workload["segments"])))
        keep = core.ddmin(idx, lambda k: bool(k) and fails(dict(workload, segments=[workload["segments"][i] for i in k])), budget)
        if keep:
            workload["segments"] = [workload["segments"][i] for i in keep]
        for si in range(len(workload["segments"])):
            ops = workload["segments"][si]["ops"]

            def with_ops(k, si=si, ops=ops):
                w = copy.deepcopy(workload)
                w["segments"][si]["ops"] = [ops[i] for i in k]
                return w

            keep_ops = core.ddmin(list(range(len(ops))), lambda k: bool(k) and fails(with_ops(k)), budget)
            if keep_ops:
                workload = with_ops(keep_ops)
        # simplify: drop faults from formulate ops, prefer H0
        for si, seg in enumerate(workload["segments"]):
            for oi, op in enumerate(seg["ops"]):
                if op.get("fault") and budget[0] > 0:
                    w = copy.deepcopy(workload)
                    w["segments"][si]["ops"][oi].pop("fault")
                    budget[0] -= 1
                    if fails(w):
                        workload = w
            if seg["cfg"] != "H0" and budget[0] > 0:
                w = copy.deepcopy(workload)
                w["segments"][si]["cfg"] = "H0"
                budget[0] -= 1
                if fails(w):
                    workload = w
        shrunk = True
    out = execute(zy, refs, run, workload, tag="-confirm")
    match = [v for v in out["violations"] if v["sig"] == sig]
    if not match and shrunk:
        # fragile violations (e.g. ones that depend on address reuse) may not survive shrinking:
        # fall back to the run as it was generated
        workload, shrunk = original, False
        out = execute(zy, refs, run, workload, tag="-confirm")
        match = [v for v in out["violations"] if v["sig"] == sig]
    if not match:
        return None
    payload = {"workload": workload, "violation": match[0], "shrunk": shrunk,
               
               "signature": signature_of(out), "check_version": CHECK_VERSION}
    path = core.write_replay(PROP, seed_, run, payload)
    final = path.with_name(f"{PROP}-{seed_}-{run}-{sig.replace(':', '_')}.json")
    path.rename(final)
    return str(final)


def replay(doc: dict, path: str) -> int:
    seed_ = int(doc.get("seed", 0))
    zy = ZygoteSet(PROFILE, seed_)
    try:
        out = execute(zy, References(zy), int(doc.get("run", 0)), doc["workload"], tag="-replay")
    finally:
        zy.close()
    want = doc["violation"]["sig"]
    print(f"replay {path}: expecting sig={want}; run signature matches recorded: "
          f"{signature_of(out) == doc.get('signature')}")
    for v in out["violations"]:
        if v["sig"] == want:
            print(f"VIOLATION property={PROP} replay={path}")
            print(f"  sig={v['sig']} {v['detail'][:600]}")
            return core.EXIT_VIOLATION
    print(f"replay did not reproduce sig={want}; got {[v['sig'] for v in out['violations']]}")
    return core.EXIT_NONDET


def coverage(records: list[dict], extras: list[dict], options: dict) -> dict:
    faults = {"probe_raise": [0, 0], "interrupt": [0, 0], "evict": [0, 0], "failed_formulate": [0, 0],
              "nested_formulate": [0, 0]}
    keys, sigs, nontrivial, touched = set(), set(), set(), set()
    sites: dict[str, int] = {}
    tot = {"ops": 0, "formulates": 0, "compared": 0, "legit_exceptions": 0, "repeats": 0,
           "success_after_failure": 0, "keys_under_several_cfgs": 0}
    cfgs: dict[str, int] = {}
    samples = []
    for rec in records:
        st = rec["stats"]
        for k in tot:
            tot[k] += st[k]
        for k, (a, f) in st["faults"].items():
            faults[k][0] += a
            faults[k][1] += f
        keys.update(st["keys"])
        touched.update(st["caches_touched"])
        sigs.add(st["signature"])
        for s, n in st["interrupt_sites"].items():
            sites[s] = sites.get(s, 0) + n
        for c in st["segments"]:
            cfgs[c] = cfgs.get(c, 0) + 1
        if st["compared"] >= 2 or len(st["segments"]) > 1:
            nontrivial.add(st["signature"])
        if rec.get("workload") is not None and len(samples) < 2:
            samples.append({"run": rec["run"], "workload": rec["workload"]})
    top_sites = dict(sorted(sites.items(), key=lambda kv: -kv[1])[:15])
    return {
        "evaluations": len(records),
        "distinct_nontrivial": len(nontrivial),
        "rule": "one evaluation = one history of 1-3 simulated processes (forks of pristine zygotes under H0/H7/HU), "
                "each interleaving ops of 1-3 builders; signature = hash of (hash-seed config, op kinds, configuration "
                "keys at each formulate, injected faults); non-trivial = at least two compared formulate() calls or >1 process",
        "samples": samples,
        "simulated_steps": tot["ops"],
        "formulate_calls": tot["formulates"], "compared_against_pristine_reference": tot["compared"],
        "legitimate_exception_outcomes_compared": tot["legit_exceptions"],
        "immediate_repeats": tot["repeats"], "success_after_failed_formulate": tot["success_after_failure"],
        "distinct_configuration_keys": len(keys),
        "keys_formulated_under_several_hash_configs": tot["keys_under_several_cfgs"],
        "faults_armed_fired": {k: {"armed": a, "fired": f} for k, (a, f) in faults.items()},
        "interrupt_sites_top": top_sites, "distinct_interrupt_sites": len(sites),
        "process_global_caches_touched": sorted(touched),
        "segments_per_hash_config_kind": {"PYTHONHASHSEED=0": cfgs.get("H0", 0),
                               "other fixed seed": sum(n for c, n in cfgs.items() if c.startswith("H") and not c.startswith("HU") and c != "H0"),
                               "unset (emulated)": sum(n for c, n in cfgs.items() if c.startswith("HU"))},
        "distinct_hash_seed_configurations": len(cfgs),
        "references_computed": sum(e.get("references_computed", 0) for e in extras),
        "references_cross_checked_in_newly_execed_interpreter": sum(e.get("fresh_checked", 0) for e in extras),
        "zygote_nonempty_caches": next((e.get("zygote_nonempty_caches") for e in extras
                                        if e.get("zygote_nonempty_caches") is not None), None),
        "reaction_pool": next((e.get("reactions") for e in extras if e.get("reactions")), []),
        "real_components": ["ampform builders/formulate", "qrules ReactionInfo", "SymPy", "fork()ed CPython processes with real PYTHONHASHSEED"],
        "stubbed_components": ["fresh process -> fork of a never-used zygote", "PYTHONHASHSEED unset -> variable removed under a fixed seed", "user callbacks -> probe builders", "Ctrl-C -> exception from sys.settrace at the N-th ampform line"],
    }
