"""./check selftest-determinism [N] [checks...]: every run must be a pure function of (code, seed, run)."""

from __future__ import annotations

import json
import os
import subprocess
import sys
import tempfile

from . import core

VARIANTS = [
    {"VERIF_WORKERS": "16", "PYTHONHASHSEED": "0"},
    {"VERIF_WORKERS": "3", "PYTHONHASHSEED": "12345"},
    {"VERIF_WORKERS": "7"},  # driver under a random hash seed
]


def determinism(argv: list[str]) -> int:
    n = int(argv[0]) if argv and argv[0].isdigit() else 200
    names = [a for a in argv if not a.isdigit()] or ["c16", "c06", "c15", "c13", "c17"]
    failed = False
    for name in names:
        outputs = []
        for variant in VARIANTS:
            env = dict(os.environ)
            env.pop("PYTHONHASHSEED", None)
            env.update(variant)
            with tempfile.NamedTemporaryFile("r", suffix=".json", dir="/dev/shm") as tmp:
                cmd = [core.PYTHON, "-c",
                       f"import sys; from simverif import driver; sys.exit(driver.collect({name!r}, {n}, {tmp.name!r}))"]
                proc = subprocess.run(cmd, cwd=str(core.VERIF), env=env, check=False)
                doc = json.loads(open(tmp.name).read() or "{}")
            if proc.returncode != 0 or doc.get("errors"):
                print(f"selftest {name}: HARNESS-ERROR {doc.get('errors')}")
                failed = True
            outputs.append(doc.get("digests", {}))
        base = outputs[0]
        diverging = sorted({r for other in outputs[1:] for r in set(base) | set(other) if base.get(r) != other.get(r)},
                           key=int)
        print(f"selftest {name}: {len(base)} runs x {len(VARIANTS)} executions (workers/hash seed of the driver varied), "
              f"diverging runs: {diverging[:20]}")
        failed = failed or bool(diverging) or not base
    return core.EXIT_NONDET if failed else core.EXIT_OK


if __name__ == "__main__":
    sys.exit(determinism(sys.argv[1:]))
