"""C15, driver side: writer process -> simulated disk -> reader processes (DESIGN §4.3)."""

from __future__ import annotations

import copy
import json
import shutil

from . import CHECK_VERSION, c06, core
from .driver import HarnessError, ZygoteSet, simroot

PROP = "C15"
PROFILE = "z_life"
ASSUMPTIONS = [
    "writer and readers are forks of pristine zygotes under different PYTHONHASHSEED configurations; the only state that crosses is the pickle file on a tmpfs directory",
    "same process: per-attribute == plus canonical digest; other process: canonical digest recorded by the writer (canon trusted); unfolded doit() results are compared through the fixed-point reconstruction N because SymPy's own unpickling is not the identity on some of them",
    "numeric identity is sampled: 30-digit evalf of the full expression at seeded parameter/variable values, compared to 18 digits",
    "inputs: models from the C06 configuration space over the fixed reaction pool, and a hand-built pool that covers every sp.Basic subclass defined in ampform (coverage.expression_classes_not_covered lists the rest)",
    "torn or foreign pickle files are not demanded (that is C16)",
]

SMALL_RX = {"gpp_h", "gpp_h+r", "gpp1_h", "gpp1_h+r", "d3pi_h", "d3pi_h+r", "ppg_h", "ppg_h+r", "gpp_c"}
TWINS = [["twin:bw:plain", "twin:bw:named", "twin:bw:swave"], ["twin:rho:plain", "twin:rho:named", "twin:rho:abs"]]


def generate(seed_: int, run: int, reactions: list[str]) -> dict:
    rng = core.run_rng(PROP, seed_, run)
    tags = [t for t in c06.RX_WEIGHTS if t in reactions]
    weights = [c06.RX_WEIGHTS[t] for t in tags]
    cfgs = core.hash_configs(seed_, run)
    files: list[tuple[str, str, bool]] = []  # (kind, file, fingerprint)
    ops: list[dict] = []
    n_models = rng.choice([0, 1, 1, 2])
    for slot in range(n_models):
        tag = rng.choices(tags, weights=weights)[0]
        ops.append({"op": "new", "b": slot, "rx": tag, "copy": rng.random() < 0.3})
        for _ in range(rng.randrange(0, 5)):
            ops.append(c06.gen_config_op(rng, slot, tag))
        ops.append({"op": "formulate", "b": slot})
        if rng.random() < 0.15:
            ops.append({"op": "touch_model", "b": slot, "last": rng.random() < 0.5})
        fp = tag in SMALL_RX and rng.random() < 0.4
        name = f"model{slot}.pkl"
        ops.append({"op": "dump", "b": slot, "file": name, "fingerprint": fp})
        files.append(("model", name, fp))
    # systematic part: run r always dumps entry r of the doubled pool (folded, then unfolded forms),
    # so that a quick run covers every class whatever the random picks are
    sweep_op = {"op": "dump_expr", "e": run, "file": "sweep.pkl"}
    if rng.random() < 0.3:
        sweep_op["interrupt"] = rng.choice([1, 2, 3, 4, 5, 6, 8, 10, 13, 17, 25, 40])
    ops.append(sweep_op)
    files.append(("expr", "sweep.pkl", False))
    for k in range(rng.choice([1, 2, 3]) if n_models else rng.choice([2, 3, 4])):
        name = f"expr{k}.pkl"
        if rng.random() < 0.3:
            # seeded random composite of library expressions (arithmetic, nesting, PoolSum), folded or unfolded
            # (folded only: unfolding an arbitrary nesting of library expressions can take minutes — two
            # soak runs hit the 600 s child timeout that way; unfolded forms come from the fixed pool)
            choice = f"rand:{rng.randrange(10**6)}"
            rng.random()
        else:
            choice = rng.randrange(10**6)
        ops.append({"op": "dump_expr", "e": choice, "file": name})
        files.append(("expr", name, False))
    twin_group = twin_member = None
    if rng.random() < 0.35:
        # one member of a family of expressions that differ in one non-SymPy attribute only; a
        # reader may have built another member before it loads this one
        twin_group = rng.choice(TWINS)
        twin_member = rng.choice(twin_group)
        ops.append({"op": "dump_expr", "e": twin_member, "file": "twin.pkl"})
        files.append(("expr", "twin.pkl", False))
    # same-process loads, possibly after more work in the writer
    for kind, name, fp in files:
        if rng.random() < 0.5:
            if rng.random() < 0.3 and n_models:
                ops.append({"op": "formulate", "b": rng.randrange(n_models)})
            ops.append({"op": "load" if kind == "model" else "load_expr", "file": name, "fingerprint": fp})
    segments = [{"cfg": rng.choice(cfgs), "ops": ops, "role": "writer"}]
    for _ in range(rng.choice([1, 1, 2])):
        rops: list[dict] = []
        if rng.random() < 0.6:  # the reader has a history of its own
            tag = rng.choices(tags, weights=weights)[0]
            rops.append({"op": "new", "b": 9, "rx": tag, "copy": False})
            for _ in range(rng.randrange(0, 3)):
                rops.append(c06.gen_config_op(rng, 9, tag))
            rops.append({"op": "formulate", "b": 9})
        if twin_group and rng.random() < 0.7:
            rops.append({"op": "build_expr", "e": rng.choice([m for m in twin_group if m != twin_member])})
        order = list(files)
        rng.shuffle(order)
        for kind, name, fp in order:
            rops.append({"op": "load" if kind == "model" else "load_expr", "file": name, "fingerprint": fp})
        segments.append({"cfg": rng.choice(cfgs), "ops": rops, "role": "reader"})
    return {"segments": segments}


def minimal_reader(cfg: str, disk, files: list[str]) -> dict:
    """Load the files in a newly exec'ed interpreter that has not imported ampform (thorough tier)."""
    import os  # noqa: PLC0415
    import subprocess  # noqa: PLC0415

    env = dict(os.environ, PYTHONHASHSEED=ZygoteSet.hashseed_of(cfg), PYTHONPATH=str(core.VERIF),
               VERIF_REPO=str(core.REPO), PYTHONDONTWRITEBYTECODE="1")
    proc = subprocess.run([*core.no_aslr_prefix(), core.PYTHON, "-m", "simverif.fresh_reader", cfg, *[str(disk / f) for f in files]],
                          env=env, cwd=str(core.VERIF), capture_output=True, text=True, timeout=900, check=False)
    if proc.returncode != 0 or not proc.stdout:
        raise HarnessError(f"minimal reader failed: {proc.stderr[-300:]}")
    return json.loads(proc.stdout)


def execute(zy: ZygoteSet, run: int, workload: dict, tag: str = "") -> dict:
    disk = simroot(f"c15-{run}{tag}")
    violations = []
    seg_out = []
    recorded: dict[str, dict] = {}
    try:
        for si, seg in enumerate(workload["segments"]):
            res = zy.call(seg["cfg"], "run_segment", {"ops": seg["ops"], "disk": str(disk), "segment": si},
                          timeout=600)
            seg_out.append(res)
            for ev in res["events"]:
                where = f"segment {si} ({seg.get('role')}, cfg={seg['cfg']}) op {ev['i']} {ev['op']} {ev.get('file')}"
                if ev["op"] in ("dump", "dump_expr"):
                    if "op_error" in ev:
                        cls = ev["op_error"].split(":")[0]
                        violations.append({"sig": f"dump-raised:{cls}", "detail": f"{where}: {ev['op_error']}"})
                    elif "file" in ev:
                        recorded[ev["file"]] = dict(ev, cfg=seg["cfg"], segment=si)
                    continue
                if ev["op"] not in ("load", "load_expr") or "file" not in ev:
                    continue
                rec = recorded.get(ev["file"])
                if rec is None:
                    continue
                scope = "same-process" if ev.get("same_process") else "cross-process"
                what = f"written by segment {rec['segment']} cfg={rec['cfg']}"
                if "load_error" in ev:
                    cls = ev["load_error"].split(":")[0]
                    violations.append({"sig": f"load-raised:{cls}", "detail": f"{where} ({what}): {ev['load_error']}"})
                    continue
                if ev.get("hash_fail"):
                    violations.append({"sig": f"hash-inconsistent:{scope}",
                                       "detail": f"{where} ({what}): {ev['hash_fail']}"})
                if ev["op"] == "load":
                    label = f"rx={rec['key']['rx']} align={rec['key']['alignment']}"
                    if ev.get("eq_fail"):
                        violations.append({"sig": f"{scope}:{ev['eq_fail']}",
                                           "detail": f"{where} ({what}; {label}): loaded.{ev['eq_fail']} != original: {ev.get('eq_detail')}"})
                    else:
                        diff = c06._compare(ev["digests"], rec["digests"])  # noqa: SLF001
                        if diff:
                            violations.append({"sig": f"{scope}:{diff}",
                                               "detail": f"{where} ({what}; {label}): digest of '{diff}' differs from the one recorded at dump time"})
                    if "fingerprint" in ev and "fingerprint" in rec and not _same_number(ev["fingerprint"], rec["fingerprint"]):
                        violations.append({"sig": "numeric",
                                           "detail": f"{where} ({what}; {label}): {ev['fingerprint']} != {rec['fingerprint']}"})
                else:
                    got = ev["digest_n"] if rec["unfolded"] else ev["digest_plain"]
                    if ev.get("eq_fail"):
                        violations.append({"sig": f"expr-{scope}:{rec['cls']}",
                                           "detail": f"{where} ({what}; {rec['name']}): loaded != original: {ev.get('eq_detail')}"})
                    elif got != rec["digest"]:
                        violations.append({"sig": f"expr-{scope}:{rec['cls']}",
                                           "detail": f"{where} ({what}; {rec['name']}): digest differs from the one recorded at dump time"})
        minimal = 0
        if workload.get("minimal_reader") and recorded:
            cfg = workload["minimal_reader"]
            loaded = minimal_reader(cfg, disk, sorted(recorded))
            if loaded.pop("__preloaded__", None):
                raise HarnessError("the minimal reader had ampform/sympy modules loaded before unpickling")
            for name, got in loaded.items():
                rec = recorded[name]
                minimal += 1
                where = f"minimal newly exec'ed reader (cfg={cfg}) load {name} (written by segment {rec['segment']} cfg={rec['cfg']})"
                if "load_error" in got:
                    violations.append({"sig": f"load-raised:{got['load_error'].split(':')[0]}", "detail": f"{where}: {got['load_error']}"})
                elif "digests" in got:
                    diff = c06._compare(got["digests"], rec["digests"])  # noqa: SLF001
                    if diff:
                        violations.append({"sig": f"cross-process:{diff}", "detail": f"{where}: digest of '{diff}' differs"})
                else:
                    value = got["digest_n"] if rec["unfolded"] else got["digest_plain"]
                    if value != rec["digest"]:
                        violations.append({"sig": f"expr-cross-process:{rec['cls']}", "detail": f"{where} ({rec['name']}): digest differs"})
    finally:
        shutil.rmtree(disk, ignore_errors=True)
    return {"segments": seg_out, "violations": violations, "recorded": recorded, "minimal_loads": minimal}


def _same_number(a: str, b: str) -> bool:
    if a.startswith("non-numeric") or b.startswith("non-numeric"):
        return a == b
    from decimal import Decimal  # noqa: PLC0415

    (ar, ai), (br, bi) = (tuple(Decimal(x) for x in v.split("|")) for v in (a, b))
    scale = max(abs(ar), abs(br), abs(ai), abs(bi), Decimal("1e-8"))
    return abs(ar - br) <= scale * Decimal("1e-12") and abs(ai - bi) <= scale * Decimal("1e-12")


def signature_of(out: dict) -> str:
    parts = []
    for seg in out["segments"]:
        parts.append(seg["cfg"].rstrip("0123456789"))
        for ev in seg["events"]:
            parts.append((ev["op"], json.dumps(ev.get("key"), sort_keys=True) if "key" in ev else None,
                          ev.get("name"), ev.get("file"), bool(ev.get("same_process"))))
    return core.sha(parts)[:20]


class Context:
    def __init__(self, zy: ZygoteSet, seed_: int, options: dict) -> None:
        self.zy = zy
        self.seed = seed_
        self.options = options
        self.info = zy.ensure("H0")

    def run(self, r: int) -> dict:
        workload = generate(self.seed, r, self.info["reactions"])
        if self.options.get("tier") == "thorough" and r % 4 == 1:
            wild = core.run_rng(PROP, self.seed, r, "minimal")
            workload["minimal_reader"] = wild.choice([f"H{wild.randrange(1, 2**31)}", f"HU{wild.randrange(1, 2**31)}", "H0"])
        out = execute(self.zy, r, workload)
        record = {"run": r, "violations": [], "stats": stats_of(workload, out),
                  "workload": workload if r < 2 else None}
        seen = set()
        for v in out["violations"]:
            if v["sig"] not in seen:
                seen.add(v["sig"])
                record["violations"].append(dict(v, workload=workload))
        return record

    def finish(self) -> dict:
        return {"reactions": self.info.get("reactions")}


def stats_of(workload: dict, out: dict) -> dict:
    st = {"models_dumped": 0, "exprs_dumped": 0, "loads_same_process": 0, "loads_cross_process": 0,
          "loads_other_hashseed": 0, "fingerprints_compared": 0, "reader_had_history": 0, "bytes": 0}
    names, classes, keys = set(), set(), set()
    for si, seg in enumerate(out["segments"]):
        had_history = False
        for ev in seg["events"]:
            if ev["op"] == "formulate" and workload["segments"][si].get("role") == "reader":
                had_history = True
            if ev["op"] == "dump" and "file" in ev:
                st["models_dumped"] += 1
                st["bytes"] += ev.get("size", 0)
                keys.add(core.sha(ev["key"])[:12])
            if ev["op"] == "dump_expr" and "file" in ev:
                st["exprs_dumped"] += 1
                names.add(ev["name"])
                classes.add(ev["cls"])
            if ev["op"] in ("load", "load_expr") and "file" in ev:
                rec = out["recorded"].get(ev["file"])
                if ev.get("same_process"):
                    st["loads_same_process"] += 1
                else:
                    st["loads_cross_process"] += 1
                    if rec and rec["cfg"] != seg["cfg"]:
                        st["loads_other_hashseed"] += 1
                    st["reader_had_history"] += int(had_history)
                if "fingerprint" in ev:
                    st["fingerprints_compared"] += 1
    st["minimal_reader_loads"] = out.get("minimal_loads", 0)
    st.update(signature=signature_of(out), expr_names=sorted(names), expr_classes=sorted(classes),
              model_keys=sorted(keys), segments=[s["cfg"] for s in workload["segments"]])
    return st


def minimise(zy: ZygoteSet, seed_: int, run: int, violation: dict, options: dict):
    sig = violation["sig"]
    workload = copy.deepcopy(violation["workload"])
    original = copy.deepcopy(violation["workload"])

    def fails(w) -> bool:
        try:
            out = execute(zy, run, w, tag="-shrink")
        except HarnessError:
            return False
        return any(v["sig"] == sig for v in out["violations"])

    shrunk = False
    if not options.get("no_shrink"):
        budget = [int(options.get("shrink_budget", 100))]
        idx = list(range(len(workload["segments"])))
        keep = core.ddmin(idx, lambda k: bool(k) and fails(dict(workload, segments=[workload["segments"][i] for i in k])), budget)
        if keep:
            workload["segments"] = [workload["segments"][i] for i in keep]
        for si in range(len(workload["segments"])):
            ops = workload["segments"][si]["ops"]

            def with_ops(k, si=si, ops=ops):
                w = copy.deepcopy(workload)
                w["segments"][si]["ops"] = [ops[i] for i in k]
                return w

            keep_ops = core.ddmin(list(range(len(ops))), lambda k: bool(k) and fails(with_ops(k)), budget)
            if keep_ops:
                workload = with_ops(keep_ops)
        for si, seg in enumerate(workload["segments"]):
            if seg["cfg"] != "H0" and budget[0] > 0:
                w = copy.deepcopy(workload)
                w["segments"][si]["cfg"] = "H0"
                budget[0] -= 1
                if fails(w):
                    workload = w
        shrunk = True
    out = execute(zy, run, workload, tag="-confirm")
    match = [v for v in out["violations"] if v["sig"] == sig]
    if not match and shrunk:
        workload, shrunk = original, False  # fragile violation: fall back to the run as generated
        out = execute(zy, run, workload, tag="-confirm")
        match = [v for v in out["violations"] if v["sig"] == sig]
    if not match:
        return None
    payload = {"workload": workload, "violation": match[0], "shrunk": shrunk,
               "signature": signature_of(out), "check_version": CHECK_VERSION}
    path = core.write_replay(PROP, seed_, run, payload)
    final = path.with_name(f"{PROP}-{seed_}-{run}-{sig.replace(':', '_')}.json")
    path.rename(final)
    return str(final)


def replay(doc: dict, path: str) -> int:
    seed_ = int(doc.get("seed", 0))
    zy = ZygoteSet(PROFILE, seed_)
    try:
        out = execute(zy, int(doc.get("run", 0)), doc["workload"], tag="-replay")
    finally:
        zy.close()
    want = doc["violation"]["sig"]
    print(f"replay {path}: expecting sig={want}; run signature matches recorded: "
          f"{signature_of(out) == doc.get('signature')}")
    for v in out["violations"]:
        if v["sig"] == want:
            print(f"VIOLATION property={PROP} replay={path}")
            print(f"  sig={v['sig']} {v['detail'][:600]}")
            return core.EXIT_VIOLATION
    print(f"replay did not reproduce sig={want}; got {[v['sig'] for v in out['violations']]}")
    return core.EXIT_NONDET


def coverage(records: list[dict], extras: list[dict], options: dict) -> dict:
    tot = {"models_dumped": 0, "exprs_dumped": 0, "loads_same_process": 0, "loads_cross_process": 0,
           "loads_other_hashseed": 0, "fingerprints_compared": 0, "reader_had_history": 0, "bytes": 0,
           "minimal_reader_loads": 0}
    names, classes, keys, sigs, nontrivial = set(), set(), set(), set(), set()
    samples = []
    for rec in records:
        st = rec["stats"]
        for k in tot:
            tot[k] += st[k]
        names.update(st["expr_names"])
        classes.update(st["expr_classes"])
        keys.update(st["model_keys"])
        sigs.add(st["signature"])
        if st["loads_cross_process"]:
            nontrivial.add(st["signature"])
        if rec.get("workload") is not None and len(samples) < 2:
            samples.append({"run": rec["run"], "workload": rec["workload"]})
    return {
        "evaluations": len(records),
        "distinct_nontrivial": len(nontrivial),
        "rule": "one evaluation = one writer process dumping 0-2 formulated models and 1-4 library expressions, "
                "same-process loads, then 1-2 reader processes (own hash seed, optionally own formulate history) loading them; "
                "signature = hash of (hash-seed kinds, ops, model configuration keys, expression names); non-trivial = at least one cross-process load",
        "samples": samples,
        "simulated_steps": sum(len(s["ops"]) for r in records if r.get("workload") for s in r["workload"]["segments"]),
        **tot,
        "distinct_model_configurations": len(keys),
        "distinct_library_expressions": len(names),
        "expression_classes_dumped": sorted(classes),
        "faults_injected": {"restart": tot["loads_cross_process"], "hash_seed_change": tot["loads_other_hashseed"],
                            "reader_history": tot["reader_had_history"]},
        "real_components": ["pickle", "ampform HelicityModel / @unevaluated __getnewargs__", "SymPy", "fork()ed CPython processes with real PYTHONHASHSEED", "tmpfs files"],
        "stubbed_components": ["fresh process -> fork of a never-used zygote", "PYTHONHASHSEED unset -> variable removed under a fixed seed"],
    }
