"""C13, driver side: op histories on the dynamics selector (DESIGN §5.1)."""

from __future__ import annotations

import copy

from . import CHECK_VERSION, core
from .driver import HarnessError, ZygoteSet

PROP = "C13"
PROFILE = "z_c13"
ASSUMPTIONS = [
    "the user-callback seam is replaced by recording/raising probe builders; what reaches a builder is observed there and in the probe factors of each chain component",
    "reference model (harness code, ~60 lines): owner[decay] := builder, name/particle selections hit every decay whose parent has that name, decay/tuple selections hit that decay; chains created by symmetrising identical final-state particles take the owner of the same decay up to state ids",
    "expected variables are derived from the topology alone (final-state ids below an edge); L is compared only where the transition specifies l_magnitude; daughters are an unordered pair",
    "inputs are a fixed reaction pool (1-3 resonances, several topologies, identical particles, a 4-body cascade); the history dimension is what is sampled",
]

RX = {"gpp_c": 3, "gpp_h": 2, "lc_h": 3, "ksp_h": 2, "ppg_h": 3, "ppg_c": 2, "j3pi_h": 2,
      "d3pi_h": 3, "psi4_h": 2, "lc_c": 1, "gpp1_h": 1, "kkpi_h": 2, "dkpp_h": 3, "etac_c": 2,
      "lc_h#1": 1, "ksp_h#1": 1, "gpp_c#1": 1, "gpp_h@x": 1, "lc_h@x": 1}
DYN = ["probeA", "probeB", "probeC", "probeA", "probeB", "bw", "bw_ff", "bw_analytic", "bw_ffonly", "bw_edw", "non_dynamic"]


def generate(seed_: int, run: int, reactions: list[str], deep: bool = False) -> dict:
    rng = core.run_rng(PROP, seed_, run)
    tags = [t for t in RX if t in reactions]
    rx = rng.choices(tags, weights=[RX[t] for t in tags])[0]
    fault_mode = rng.random() < 0.4
    ops: list[dict] = []
    for _ in range(rng.randrange(2, 11) if not (deep and run % 3 == 0) else rng.randrange(10, 32)):
        r = rng.random()
        if r < 0.6:
            kind = rng.choices(["name", "particle", "decay", "tuple", "set_dynamics"], weights=[5, 2, 3, 3, 1])[0]
            sel = {"kind": kind, "i": rng.randrange(200), "n": rng.randrange(3)}
            if kind in ("name", "set_dynamics") and rng.random() < 0.08:
                sel["unknown"] = True
            ops.append({"op": "assign", "sel": sel, "dyn": rng.choice(DYN)})
        elif r < 0.67:
            ops.append({"op": "helcoup", "v": rng.random() < 0.5})
        else:
            op = {"op": "formulate"}
            if fault_mode and rng.random() < 0.3:
                op["fault"] = {"kind": "probe_raise", "k": rng.choice([1, 1, 2, 3, 5])}
            ops.append(op)
    ops.append({"op": "formulate"})
    return {"rx": rx, "cfg": rng.choice(core.hash_configs(seed_, run)), "ops": ops, "fault_mode": fault_mode}


def execute(zy: ZygoteSet, workload: dict) -> dict:
    res = zy.call(workload["cfg"], "run_history", {"rx": workload["rx"], "ops": workload["ops"]}, timeout=600)
    violations = []
    for ev in res["events"]:
        for mm in ev.get("mismatch", []):
            violations.append({"sig": mm["kind"],
                               "detail": f"rx={workload['rx']} cfg={workload['cfg']} op {ev['i']} formulate: {mm['detail']}"})
    return {"result": res, "violations": violations}


def signature_of(workload: dict, out: dict) -> str:
    parts = [workload["rx"]]
    for ev in out["result"]["events"]:
        parts.append((ev["op"], ev.get("sel"), ev.get("outcome"), ev.get("injected"), tuple(ev.get("owners", []))))
    return core.sha(parts)[:20]


class Context:
    def __init__(self, zy: ZygoteSet, seed_: int, options: dict) -> None:
        self.zy = zy
        self.seed = seed_
        self.options = options
        self.info = zy.ensure("H0")

    def run(self, r: int) -> dict:
        workload = generate(self.seed, r, self.info["reactions"], deep=self.options.get("tier") == "thorough")
        out = execute(self.zy, workload)
        res = out["result"]
        formulates = [ev for ev in res["events"] if ev["op"] == "formulate"]
        after_fault = 0
        pending = False
        for ev in formulates:
            if ev.get("injected"):
                pending = True
            elif pending:
                after_fault += 1
                pending = False
        stats = {
            "signature": signature_of(workload, out), "rx": workload["rx"], "ops": len(workload["ops"]),
            "formulates": len(formulates),
            "checked": sum(1 for ev in formulates if ev.get("outcome") == "model"),
            "raised": sum(1 for ev in formulates if str(ev.get("outcome", "")).startswith("raised")),
            "predicted_calls": sum(ev.get("n_predicted_calls", 0) for ev in formulates),
            "observed_calls": sum(ev.get("n_observed_calls", 0) for ev in formulates),
            "chains": sum(ev.get("n_chains", 0) for ev in formulates),
            "with_library_builders": sum(1 for ev in formulates if ev.get("lib")),
            "faults": res["faults"], "ref_probes": res["ref_probes"],
            "formulate_after_fault": after_fault, "cfg": workload["cfg"],
        }
        record = {"run": r, "violations": [], "stats": stats, "workload": workload if r < 3 else None}
        seen = set()
        for v in out["violations"]:
            if v["sig"] not in seen:
                seen.add(v["sig"])
                record["violations"].append(dict(v, workload=workload))
        return record

    def finish(self) -> dict:
        return {"reactions": self.info.get("reactions")}


def minimise(zy: ZygoteSet, seed_: int, run: int, violation: dict, options: dict):
    sig = violation["sig"]
    workload = copy.deepcopy(violation["workload"])
    original = copy.deepcopy(violation["workload"])

    def fails(w) -> bool:
        try:
            return any(v["sig"] == sig for v in execute(zy, w)["violations"])
        except HarnessError:
            return False

    shrunk = False
    if not options.get("no_shrink"):
        budget = [int(options.get("shrink_budget", 80))]
        ops = workload["ops"]
        keep = core.ddmin(list(range(len(ops))),
                          lambda k: bool(k) and fails(dict(workload, ops=[ops[i] for i in k])), budget)
        if keep:
            workload["ops"] = [ops[i] for i in keep]
        if workload["cfg"] != "H0" and budget[0] > 0 and fails(dict(workload, cfg="H0")):
            workload["cfg"] = "H0"
        for oi, op in enumerate(workload["ops"]):
            if op.get("fault") and budget[0] > 0:
                w = copy.deepcopy(workload)
                w["ops"][oi].pop("fault")
                budget[0] -= 1
                if fails(w):
                    workload = w
        shrunk = True
    out = execute(zy, workload)
    match = [v for v in out["violations"] if v["sig"] == sig]
    if not match and shrunk:
        workload, shrunk = original, False  # fragile violation: fall back to the run as generated
        out = execute(zy, workload)
        match = [v for v in out["violations"] if v["sig"] == sig]
    if not match:
        return None
    payload = {"workload": workload, "violation": match[0], "shrunk": shrunk,
               "signature": signature_of(workload, out), "check_version": CHECK_VERSION}
    path = core.write_replay(PROP, seed_, run, payload)
    safe = sig.replace(":", "_").replace("/", "_").replace("(", "").replace(")", "").replace("*", "x")
    final = path.with_name(f"{PROP}-{seed_}-{run}-{safe}.json")
    path.rename(final)
    return str(final)


def replay(doc: dict, path: str) -> int:
    zy = ZygoteSet(PROFILE, int(doc.get("seed", 0)))
    try:
        out = execute(zy, doc["workload"])
    finally:
        zy.close()
    want = doc["violation"]["sig"]
    print(f"replay {path}: expecting sig={want}; run signature matches recorded: "
          f"{signature_of(doc['workload'], out) == doc.get('signature')}")
    known = core.match_known(core.load_known(), PROP, want)
    for v in out["violations"]:
        if v["sig"] == want:
            if known is not None:
                print(f"KNOWN-FINDING: property={PROP} sig={want} {known['text']}")
                return core.EXIT_OK
            print(f"VIOLATION property={PROP} replay={path}")
            print(f"  sig={v['sig']} {v['detail'][:600]}")
            return core.EXIT_VIOLATION
    print(f"replay did not reproduce sig={want}; got {[v['sig'] for v in out['violations']]}")
    return core.EXIT_NONDET


def coverage(records: list[dict], extras: list[dict], options: dict) -> dict:
    keys = ("ops", "formulates", "checked", "raised", "predicted_calls", "observed_calls", "chains",
            "with_library_builders", "formulate_after_fault")
    tot = dict.fromkeys(keys, 0)
    faults = {"probe_raise": [0, 0]}
    probes: dict[str, int] = {}
    rx: dict[str, int] = {}
    sigs, nontrivial = set(), set()
    samples = []
    for rec in records:
        st = rec["stats"]
        for k in keys:
            tot[k] += st[k]
        faults["probe_raise"][0] += st["faults"]["probe_raise"][0]
        faults["probe_raise"][1] += st["faults"]["probe_raise"][1]
        for k, n in st["ref_probes"].items():
            probes[k] = probes.get(k, 0) + n
        rx[st["rx"]] = rx.get(st["rx"], 0) + 1
        sigs.add(st["signature"])
        if st["checked"] and st["predicted_calls"] + st["with_library_builders"] > 0:
            nontrivial.add(st["signature"])
        if rec.get("workload") is not None and len(samples) < 3:
            samples.append({"run": rec["run"], "workload": rec["workload"]})
    return {
        "evaluations": len(records),
        "distinct_nontrivial": len(nontrivial),
        "rule": "one evaluation = one history of 3-11 assign/re-assign/formulate ops on one builder; signature = hash of "
                "(reaction, op kinds, selections, outcomes, set of owning builders at each formulate); non-trivial = at least one "
                "checked formulate() with a probe or library builder attached to some node",
        "samples": samples,
        "simulated_steps": tot["ops"],
        **{k: v for k, v in tot.items() if k != "ops"},
        "faults_armed_fired": {"probe_raise": {"armed": faults["probe_raise"][0], "fired": faults["probe_raise"][1]}},
        "reach_probes": probes,
        "histories_per_reaction": rx,
        "real_components": ["DynamicsSelector.assign (all selection forms)", "HelicityAmplitudeBuilder.formulate", "library Breit-Wigner builders", "qrules transitions"],
        "stubbed_components": ["user-supplied ResonanceDynamicsBuilder -> recording/raising probe"],
    }
