"""Driver: zygote management, parallel workers, violation handling, evidence."""

from __future__ import annotations

import importlib
import json
import multiprocessing as mp
import os
import shutil
import subprocess
import sys
import time
import traceback
from pathlib import Path

from . import CHECK_VERSION, core


class HarnessError(Exception):
    pass


class ZygoteSet:
    """One zygote per hash-seed configuration, started lazily."""

    def __init__(self, profile: str, seed_: int) -> None:
        self.profile = profile
        self.seed = seed_
        self.procs: dict[str, subprocess.Popen] = {}
        self.info: dict[str, dict] = {}

    MAX_LIVE = 7

    @staticmethod
    def hashseed_of(cfg: str) -> str:
        if cfg.startswith("HU"):
            return cfg[2:] or "424242"
        if cfg.startswith("H") and cfg[1:].isdigit():
            return cfg[1:]
        raise ValueError(cfg)

    def _start(self, cfg: str) -> subprocess.Popen:
        if len(self.procs) >= self.MAX_LIVE:
            victim = next(c for c in self.procs if c != "H0")
            self._stop(victim)
        env = dict(os.environ)
        env["PYTHONHASHSEED"] = self.hashseed_of(cfg)
        env["PYTHONDONTWRITEBYTECODE"] = "1"
        env["PYTHONPATH"] = str(core.VERIF)
        env["VERIF_REPO"] = str(core.REPO)
        stderr = None if os.environ.get("VERIF_DEBUG") else subprocess.DEVNULL
        proc = subprocess.Popen(
            [*core.no_aslr_prefix(), core.PYTHON, "-m", "simverif.zygote", self.profile,
             "HU" if cfg.startswith("HU") else cfg],
            stdin=subprocess.PIPE, stdout=subprocess.PIPE, stderr=stderr,
            env=env, cwd=str(core.VERIF), text=True, bufsize=1,
        )
        line = proc.stdout.readline()
        try:
            hello = json.loads(line)
        except ValueError as exc:
            raise HarnessError(f"zygote {self.profile}/{cfg} did not start: {line!r}") from exc
        if not hello.get("ready"):
            raise HarnessError(f"zygote {self.profile}/{cfg}: {hello}")
        self.info[cfg] = hello.get("info") or {}
        self.procs[cfg] = proc
        return proc

    def ensure(self, cfg: str) -> dict:
        if cfg not in self.procs:
            self._start(cfg)
        return self.info[cfg]

    def call(self, cfg: str, fn: str, args: dict, timeout: float = 120):
        proc = self.procs.get(cfg) or self._start(cfg)
        request = {"fn": fn, "args": args, "timeout": timeout}
        try:
            proc.stdin.write(json.dumps(request) + "\n")
            proc.stdin.flush()
            line = proc.stdout.readline()
        except (BrokenPipeError, OSError) as exc:
            raise HarnessError(f"zygote {cfg} pipe: {exc}") from exc
        if not line:
            raise HarnessError(f"zygote {cfg} died")
        response = json.loads(line)
        if "harness_error" in response:
            raise HarnessError(f"{fn}@{cfg}: {response['harness_error']}\n{response.get('traceback', '')}")
        return response["ok"]

    def _stop(self, cfg: str) -> None:
        proc = self.procs.pop(cfg)
        try:
            proc.stdin.write(json.dumps({"fn": "__exit__"}) + "\n")
            proc.stdin.flush()
            proc.stdin.close()
            proc.wait(timeout=5)
        except (OSError, subprocess.TimeoutExpired):
            proc.kill()

    def close(self) -> None:
        for proc in self.procs.values():
            try:
                proc.stdin.write(json.dumps({"fn": "__exit__"}) + "\n")
                proc.stdin.flush()
                proc.stdin.close()
            except OSError:
                pass
        for proc in self.procs.values():
            try:
                proc.wait(timeout=5)
            except subprocess.TimeoutExpired:
                proc.kill()
        self.procs.clear()


def simroot(tag: str) -> Path:
    base = Path("/dev/shm") if Path("/dev/shm").is_dir() and os.access("/dev/shm", os.W_OK) else None
    if base is None:
        import tempfile  # noqa: PLC0415

        base = Path(tempfile.gettempdir())
    path = base / f"simverif-{os.getpid()}-{tag}"
    if path.exists():
        shutil.rmtree(path, ignore_errors=True)
    path.mkdir(parents=True)
    return path


# --------------------------------------------------------------------------- #
# worker
# --------------------------------------------------------------------------- #
def _worker(check_name: str, w: int, workers: int, seed_: int, runs: int, deadline: float,
            conn, options: dict, run_list=None) -> None:
    import importlib  # noqa: PLC0415

    check = importlib.import_module(f"simverif.{check_name}")
    zy = ZygoteSet(check.PROFILE, seed_)
    try:
        ctx = check.Context(zy, seed_, options)
        position = w
        while time.time() < deadline:
            if run_list is not None:
                if position >= len(run_list):
                    break
                r = run_list[position]
            else:
                r = position
                if r >= runs:
                    break
            try:
                record = ctx.run(r)
            except HarnessError as exc:
                conn.send({"run": r, "harness_error": str(exc)})
                break
            conn.send(record)
            position += workers
        conn.send({"done": w, "extra": ctx.finish()})
    except BaseException as exc:  # noqa: BLE001
        conn.send({"run": -1, "harness_error": f"worker {w}: {type(exc).__name__}: {exc}\n"
                   + traceback.format_exc()[-3000:]})
        conn.send({"done": w, "extra": {}})
    finally:
        zy.close()
        conn.close()


def _batch(check_name, seed_, run_list, runs, workers, deadline, options):
    """Execute runs (explicit list, or 0,1,2,... until the deadline) on ``workers`` processes."""
    ctx = mp.get_context("fork")
    conns, procs = [], []
    for w in range(workers):
        parent, child = ctx.Pipe(duplex=False)
        p = ctx.Process(target=_worker,
                        args=(check_name, w, workers, seed_, runs, deadline, child, options, run_list))
        p.start()
        child.close()
        conns.append(parent)
        procs.append(p)
    records: list[dict] = []
    extras: list[dict] = []
    harness_errors: list[str] = []
    open_conns = list(conns)
    hard_deadline = deadline + float(options.get("grace_s", 600))
    while open_conns:
        if time.time() > hard_deadline:
            harness_errors.append("workers did not finish before the hard deadline")
            break
        for conn in mp.connection.wait(open_conns, timeout=5):
            try:
                msg = conn.recv()
            except EOFError:
                open_conns.remove(conn)
                continue
            if "done" in msg:
                extras.append(msg.get("extra") or {})
                open_conns.remove(conn)
            elif "harness_error" in msg:
                harness_errors.append(f"run {msg.get('run')}: {msg['harness_error']}")
            else:
                records.append(msg)
    for p in procs:
        p.join(timeout=10)
        if p.is_alive():
            p.kill()
    records.sort(key=lambda rec: rec["run"])
    return records, extras, harness_errors


def collect(check_name: str, runs: int, out_path: str) -> int:
    """Determinism self-test helper: per-run digests of everything a run observed."""
    seed_ = core.seed()
    workers = max(1, min(core.env_int("VERIF_WORKERS", 16), runs))
    # a third of the runs from the directed opening of a batch (if the check has one), the rest from
    # the random part (run indices are what they would be in a check: generation depends on them only)
    offset = int(getattr(importlib.import_module(f"simverif.{check_name}"), "SELFTEST_OFFSET", 0))
    head = runs // 3 if offset else runs
    run_list = list(range(head)) + [offset + i for i in range(runs - head)]
    records, _, errors = _batch(check_name, seed_, run_list, runs, workers,
                                time.time() + 3600, {"tier": "selftest"})
    doc = {str(r["run"]): core.sha([r["stats"], sorted(v["sig"] for v in r.get("violations", []))])
           for r in records}
    Path(out_path).write_text(json.dumps({"digests": doc, "errors": errors}, indent=0))
    return core.EXIT_HARNESS if errors else core.EXIT_OK


def tree_fingerprint() -> str:
    """Digest of the sources the zygotes import; a run during which it changes proves nothing."""
    import hashlib  # noqa: PLC0415

    m = hashlib.sha256()
    for path in sorted((core.REPO / "src").rglob("*.py")):
        m.update(str(path).encode())
        m.update(path.read_bytes())
    return m.hexdigest()[:16]


def _remove_stale_roots() -> None:
    """Simulation roots of driver/worker processes that no longer exist (killed runs)."""
    base = Path("/dev/shm")
    if not base.is_dir():
        return
    for path in base.glob("simverif-*"):
        parts = path.name.split("-")
        pid = next((p for p in parts[1:] if p.isdigit()), None)
        if pid is None or os.path.exists(f"/proc/{pid}"):
            continue
        shutil.rmtree(path, ignore_errors=True)


def run_check(check_name: str, tier: str, runs: int, budget_s: float, options: dict | None = None) -> int:
    """Run a check over runs 0..runs-1 (or until the budget), write evidence, print verdict."""
    _remove_stale_roots()
    options = dict(options or {})
    options["tree_fingerprint"] = tree_fingerprint()
    import importlib  # noqa: PLC0415

    options = dict(options or {})
    options["tier"] = tier
    check = importlib.import_module(f"simverif.{check_name}")
    prop = check.PROP
    seed_ = core.seed()
    workers = max(1, min(core.env_int("VERIF_WORKERS", 16), runs))
    watch = core.Stopwatch()
    print(f"VERIF_SEED={seed_} property={prop} tier={tier} workers={workers} runs<={runs} "
          f"budget_s={budget_s} repo={core.REPO} check_version={CHECK_VERSION}", flush=True)
    deadline = time.time() + budget_s
    records, extras, harness_errors = _batch(check_name, seed_, list(range(runs)) if runs < 10**8 else None,
                                             runs, workers, deadline, options)
    # determinism probe: re-execute the first runs under another worker assignment
    n_re = min(int(options.get("recheck_runs", 12)), len(records))
    if n_re and not harness_errors:
        sample = records[::max(1, len(records) // n_re)][:n_re]  # spread over the batch, not its opening only
        redo, _, errs = _batch(check_name, seed_, [r["run"] for r in sample], n_re,
                               max(1, min(5, n_re)), time.time() + 600, dict(options, recheck=True))
        harness_errors += errs
        first = {r["run"]: core.sha([r["stats"], sorted(v["sig"] for v in r.get("violations", []))]) for r in sample}
        for r in redo:
            again = core.sha([r["stats"], sorted(v["sig"] for v in r.get("violations", []))])
            if first.get(r["run"]) != again:
                options.setdefault("nondeterministic_runs", []).append(r["run"])
        options["rechecked_runs"] = len(redo)
    records.sort(key=lambda rec: rec["run"])
    return _report(check, prop, tier, seed_, records, extras, harness_errors, watch, options)


def _minimise_one(check_name: str, seed_: int, run: int, violation: dict, options: dict, conn) -> None:
    import importlib  # noqa: PLC0415

    check = importlib.import_module(f"simverif.{check_name}")
    zy = ZygoteSet(check.PROFILE, seed_)
    core.SHRINK_DEADLINE[0] = time.time() + float(options.get("shrink_wall_s", 150))
    try:
        conn.send({"replay": check.minimise(zy, seed_, run, violation, options)})
    except BaseException as exc:  # noqa: BLE001
        conn.send({"replay": None, "error": f"{type(exc).__name__}: {exc}\n" + traceback.format_exc()[-2000:]})
    finally:
        zy.close()
        conn.close()


def _minimise_all(check, new: list, seed_: int, options: dict, harness_errors: list) -> None:
    """Shrink + confirm the first occurrence (lowest run) of every distinct signature."""
    first: dict[str, tuple] = {}
    for rec, v in new:
        first.setdefault(v["sig"], (rec, v))
    ctx = mp.get_context("fork")
    jobs = []
    check_name = check.__name__.rsplit(".", 1)[-1]
    for i, (sig, (rec, v)) in enumerate(sorted(first.items())):
        opts = dict(options)
        if i >= int(options.get("max_shrunk_sigs", 6)):
            opts["no_shrink"] = True
        parent, child = ctx.Pipe(duplex=False)
        p = ctx.Process(target=_minimise_one, args=(check_name, seed_, rec["run"], v, opts, child))
        p.start()
        child.close()
        jobs.append((sig, p, parent))
    for sig, p, parent in jobs:
        replay = None
        if parent.poll(float(options.get("shrink_timeout_s", 900))):
            try:
                msg = parent.recv()
                replay = msg.get("replay")
                if msg.get("error"):
                    harness_errors.append(f"minimise {sig}: {msg['error']}")
            except EOFError:
                pass
        else:
            p.kill()
            harness_errors.append(f"minimise {sig}: timeout")
        p.join(timeout=10)
        for rec, v in new:
            if v["sig"] == sig:
                v["replay"] = replay


def _report(check, prop, tier, seed_, records, extras, harness_errors, watch, options) -> int:
    known = core.load_known()
    violations = [(rec, v) for rec in records for v in rec.get("violations", [])]
    new, listed = [], {}
    for rec, v in violations:
        k = core.match_known(known, prop, v["sig"])
        if k is not None:
            listed.setdefault(v["sig"], (k, rec, v))
        else:
            new.append((rec, v))
    if new:
        _minimise_all(check, new, seed_, options, harness_errors)
    for rec, v in violations:
        v.pop("workload", None)
        v.pop("traces", None)
    coverage = check.coverage(records, extras, options)
    coverage["harness_errors"] = len(harness_errors)
    coverage["runs_per_hour"] = round(len(records) / max(watch.elapsed(), 1e-9) * 3600)
    coverage["known_findings_seen"] = sorted(listed)
    coverage["check_version"] = CHECK_VERSION
    coverage["tree_fingerprint"] = options.get("tree_fingerprint")
    coverage["address_space_randomisation_disabled_for_simulated_processes"] = bool(core.no_aslr_prefix())
    if options.get("tree_fingerprint") and options["tree_fingerprint"] != tree_fingerprint():
        harness_errors.append(f"sources under {core.REPO}/src changed while the check was running")
    coverage["determinism_recheck"] = {"runs_re_executed_under_other_worker_assignment": options.get("rechecked_runs", 0),
                                       "diverging_runs": options.get("nondeterministic_runs", [])}
    core.write_evidence(prop, tier, seed_, coverage, watch.elapsed(), len(new), check.ASSUMPTIONS)
    for sig, (k, rec, v) in sorted(listed.items()):
        print(f"KNOWN-FINDING: property={prop} sig={sig} {k['text']}")
    if harness_errors:
        for err in harness_errors[:5]:
            print(f"HARNESS-ERROR {err}", file=sys.stderr)
        print(f"HARNESS-ERROR property={prop}: {len(harness_errors)} harness errors; nothing is claimed")
        return core.EXIT_HARNESS
    if not records:
        print(f"HARNESS-ERROR property={prop}: no runs executed")
        return core.EXIT_HARNESS
    diverged = options.get("nondeterministic_runs")
    if diverged and not any(v.get("replay") is not None for _, v in new):
        print(f"HARNESS-NONDETERMINISM property={prop}: runs {diverged} gave another "
              "event digest when re-executed; nothing is claimed")
        return core.EXIT_NONDET
    if diverged:
        # a violation whose replay file reproduces in a fresh process stands on its own; the divergence is
        # reported with it (code whose behaviour depends on object addresses shows both)
        print(f"NOTE property={prop}: runs {diverged} gave another event digest when re-executed "
              "(behaviour of the code under test depends on something outside seed and run)")
    if new:
        seen = set()
        nondet = False
        for rec, v in new:
            if v["sig"] in seen:
                continue
            seen.add(v["sig"])
            if v.get("replay") is None:
                nondet = True
                print(f"HARNESS-NONDETERMINISM property={prop} run={rec['run']} sig={v['sig']}: "
                      f"violation did not reproduce on replay: {v.get('detail')}")
                continue
            print(f"VIOLATION property={prop} replay={v['replay']}")
            print(f"  run={rec['run']} sig={v['sig']} {str(v.get('detail'))[:600]}")
        if all(v.get("replay") is None for _, v in new) and nondet:
            return core.EXIT_NONDET
        return core.EXIT_VIOLATION
    print(f"OK property={prop} tier={tier} runs={len(records)} wall_s={watch.elapsed():.1f} "
          f"distinct_nontrivial={coverage.get('distinct_nontrivial')}")
    return core.EXIT_OK
