"""Seeding, choice traces, shrinking, replay files, known findings, evidence."""

from __future__ import annotations

import hashlib
import json
import os
import random
import time
from pathlib import Path

VERIF = Path(__file__).resolve().parent.parent
REPO = Path(os.environ.get("VERIF_REPO", "/repo"))
PYTHON = os.environ.get("VERIF_PYTHON", "/venv/bin/python")
EVIDENCE_DIR = Path(os.environ.get("VERIF_EVIDENCE_DIR", VERIF / "evidence"))
REPLAY_DIR = Path(os.environ.get("VERIF_REPLAY_DIR", VERIF / "replays"))
KNOWN_FILE = VERIF / "KNOWN_FINDINGS.txt"

EXIT_OK = 0
EXIT_VIOLATION = 1
EXIT_HARNESS = 2
EXIT_NONDET = 3

HASH_CONFIGS = ("H0", "H7", "HU")


_NO_ASLR: list | None = None


def no_aslr_prefix() -> list[str]:
    """``setarch <arch> -R`` if it works here: simulated processes then get the same addresses in every
    zygote, which makes behaviour that depends on object identity or address reuse replayable."""
    global _NO_ASLR  # noqa: PLW0603
    if _NO_ASLR is None:
        import platform  # noqa: PLC0415
        import shutil  # noqa: PLC0415
        import subprocess  # noqa: PLC0415

        _NO_ASLR = []
        exe = shutil.which("setarch")
        if exe and not os.environ.get("VERIF_KEEP_ASLR"):
            cmd = [exe, platform.machine(), "-R"]
            try:
                outs = {subprocess.run([*cmd, PYTHON, "-c", "print(id(object()))"], capture_output=True, text=True,
                                       timeout=60, check=False).stdout for _ in range(2)}
                if len(outs) == 1 and outs.pop().strip().isdigit():
                    _NO_ASLR = cmd
            except (OSError, subprocess.SubprocessError):
                _NO_ASLR = []
    return list(_NO_ASLR)


def env_int(name: str, default: int) -> int:
    value = os.environ.get(name, "")
    try:
        return int(value)
    except ValueError:
        return default


def seed() -> int:
    return env_int("VERIF_SEED", 0)


def run_rng(prop: str, seed_: int, run: int, salt: str = "") -> random.Random:
    """PRNG of one run; string seeding is SHA-512 based => hash-seed independent."""
    return random.Random(f"{prop}:{seed_}:{run}:{salt}")


LANES = 16


def hash_configs(seed_: int, run: int) -> tuple[str, str, str]:
    """Hash-seed configurations available to run ``run``: PYTHONHASHSEED=0, another fixed
    value, and "unset" (emulated under a fixed real seed).  The non-zero values depend on
    (VERIF_SEED, run mod 16) only, so one invocation covers 16 pairs of them whatever the
    worker count, and a run's configurations do not depend on which worker executes it."""
    lane = run % LANES
    rng = random.Random(f"hashseed:{seed_}:{lane}")
    return ("H0", f"H{rng.randrange(1, 2**31)}", f"HU{rng.randrange(1, 2**31)}")


def sha(obj) -> str:
    if not isinstance(obj, (bytes, bytearray)):
        obj = json.dumps(obj, sort_keys=True, default=str).encode()
    return hashlib.sha256(obj).hexdigest()


class Chooser:
    """All run-time decisions of a simulated run go through :meth:`choose`.

    Record mode draws from ``rng``; replay mode feeds ``trace`` back.  An exhausted
    trace or an out-of-range value yields 0, which by convention is always
    "no fault / keep the current actor / whole buffer".
    """

    def __init__(self, rng: random.Random | None = None, trace=None) -> None:
        self.rng = rng
        self.replay = None if trace is None else list(trace)
        self.pos = 0
        self.trace: list[int] = []
        self.labels: list[str] = []

    def choose(self, n: int, label: str, weights=None) -> int:
        if n <= 1:
            return 0
        if self.replay is not None:
            value = self.replay[self.pos] if self.pos < len(self.replay) else 0
            self.pos += 1
            if not isinstance(value, int) or not 0 <= value < n:
                value = 0
        elif weights is not None:
            value = self.rng.choices(range(n), weights=weights[:n])[0]
        else:
            value = self.rng.randrange(n)
        self.trace.append(value)
        self.labels.append(label)
        return value


# --------------------------------------------------------------------------- #
# known findings
# --------------------------------------------------------------------------- #
def load_known() -> list[dict]:
    """``known: property=<id> sig=<signature> <text>`` lines (fixed: lines suppress nothing)."""
    out = []
    if not KNOWN_FILE.exists():
        return out
    for line in KNOWN_FILE.read_text().splitlines():
        line = line.strip()
        if not line.startswith("known:"):
            continue
        parts = line.split(None, 3)
        if len(parts) < 3:
            continue
        prop = parts[1].split("=", 1)[-1]
        sig = parts[2].split("=", 1)[-1]
        out.append({"property": prop, "sig": sig, "text": parts[3] if len(parts) > 3 else ""})
    return out


def match_known(known: list[dict], prop: str, sig: str) -> dict | None:
    for k in known:
        if k["property"] == prop and k["sig"] == sig:
            return k
    return None


# --------------------------------------------------------------------------- #
# shrinking
# --------------------------------------------------------------------------- #
SHRINK_DEADLINE = [float("inf")]


def out_of_time() -> bool:
    return time.time() > SHRINK_DEADLINE[0]


def ddmin(items: list, fails, budget: list[int]) -> list:
    """Classic delta debugging on a list; ``fails(candidate)`` -> bool.

    ``budget`` is a one-element list with the remaining number of executions.
    """
    n = 2
    items = list(items)
    while len(items) >= 2 and budget[0] > 0 and not out_of_time():
        chunk = max(1, len(items) // n)
        subsets = [items[i : i + chunk] for i in range(0, len(items), chunk)]
        reduced = False
        for i, _ in enumerate(subsets):
            if budget[0] <= 0 or out_of_time():
                break
            complement = [x for j, s in enumerate(subsets) if j != i for x in s]
            budget[0] -= 1
            if complement and fails(complement):
                items = complement
                n = max(n - 1, 2)
                reduced = True
                break
        if not reduced:
            if n >= len(items):
                break
            n = min(len(items), n * 2)
    if len(items) == 1 and budget[0] > 0 and not out_of_time():
        budget[0] -= 1
        if fails([]):
            return []
    return items


def shrink_trace(trace: list[int], fails, budget: list[int]) -> list[int]:
    """Zero the choice trace greedily: first the tail, then blocks, then single entries."""
    trace = list(trace)
    # truncate tail (exhausted trace == zeros)
    while trace and trace[-1] == 0:
        trace.pop()
    size = len(trace)
    block = max(1, size // 2)
    while block >= 1 and budget[0] > 0 and not out_of_time():
        i = 0
        changed = False
        while i < len(trace) and budget[0] > 0 and not out_of_time():
            if any(trace[i : i + block]):
                cand = trace[:i] + [0] * len(trace[i : i + block]) + trace[i + block :]
                budget[0] -= 1
                if fails(cand):
                    trace = cand
                    changed = True
            i += block
        if block == 1 and not changed:
            break
        block = block // 2 if block > 1 else (1 if changed else 0)
    while trace and trace[-1] == 0:
        trace.pop()
    return trace


# --------------------------------------------------------------------------- #
# replay files and evidence
# --------------------------------------------------------------------------- #
def write_replay(prop: str, seed_: int, run: int, payload: dict) -> Path:
    REPLAY_DIR.mkdir(exist_ok=True, parents=True)
    path = REPLAY_DIR / f"{prop}-{seed_}-{run}.json"
    payload = dict(payload)
    payload.setdefault("property", prop)
    payload.setdefault("seed", seed_)
    payload.setdefault("run", run)
    path.write_text(json.dumps(payload, indent=1, sort_keys=True, default=str))
    return path


def write_evidence(prop: str, tier: str, seed_: int, coverage: dict, wall_s: float,
                   violations: int, assumptions: list[str]) -> Path:
    EVIDENCE_DIR.mkdir(exist_ok=True, parents=True)
    doc = {
        "property_id": prop,
        "tier": tier,
        "seed": seed_,
        "level": "exploration",
        "coverage": coverage,
        "assumptions": assumptions,
        "wall_s": round(wall_s, 2),
        "violations": violations,
    }
    path = EVIDENCE_DIR / f"{prop}.json"
    tmp = path.with_suffix(".json.tmp")
    tmp.write_text(json.dumps(doc, indent=1, sort_keys=True, default=str))
    os.replace(tmp, path)
    return path


class Stopwatch:
    def __init__(self) -> None:
        self.t0 = time.time()

    def elapsed(self) -> float:
        return time.time() - self.t0
