"""C16, driver side: workload generation, execution over zygotes, oracle, shrinking."""

from __future__ import annotations

import copy
import os
import shutil

from . import CHECK_VERSION, core
from .driver import HarnessError, ZygoteSet, simroot

SELFTEST_OFFSET = 400  # first run index behind the directed plan (see directed_plan)
PROP = "C16"
FOREIGN_FILES = True
PROFILE = "z_c16"
ASSUMPTIONS = [
    "simulated processes are either baton-passing threads inside one forked interpreter or real fork()ed processes that block on a pipe at every seam (half of the runs each); only the choice of who runs is simulated, the code that runs is the real perform_cached_doit/pickle/SymPy on a real tmpfs directory",
    "kill = thread parked forever + descriptors closed, or SIGKILL of the actor process; every chunk boundary (down to single bytes) is a reachable crash state; power loss after a completed close/rename is not modelled",
    "directory contents are restricted to what some version of perform_cached_doit (pinned protocol via the harness 'legacy writer', or current), run to completion or killed at any byte, can leave behind",
    "PYTHONHASHSEED unset is emulated by removing the variable under a fixed real seed",
    "equality is canonical-digest equality after the fixed-point reconstruction N (DESIGN 2.5); canon/N are trusted harness code",
]


# --------------------------------------------------------------------------- #
# workload
# --------------------------------------------------------------------------- #
def _verification_phases(phases: list[dict]) -> list[dict]:
    used: dict[str, list] = {}
    for ph in phases:
        if ph.get("verify"):
            continue
        bucket = used.setdefault(ph["cfg"], [])
        for actor in ph["actors"]:
            for call in actor["calls"]:
                key = (call["expr"], call.get("dir", "shared"))
                if key not in bucket:
                    bucket.append(key)
    out = []
    for i, (cfg, keys) in enumerate(used.items()):
        if not keys:
            continue
        out.append({
            "cfg": cfg, "verify": True,
            "actors": [{"kind": "user", "calls": [{"expr": e, "dir": d} for e, d in keys]}],
            "knobs": {"kills": 0, "errors": 0, "chunk_modes": [0], "pid_base": 9000 + 16 * i,
                      "max_steps": 20000, "mode": phases[0]["knobs"].get("mode", "thread") if phases else "thread"},
        })
    return out


def directed_plan(info: dict) -> list[tuple]:
    """(expr, partner, lowest step, highest step) of the directed runs that open every batch: every
    ordered pair of colliding keys; pairs whose names (hence entries) have the same size get one kill
    point in each 60-step stratum, the others two kill points."""
    families: dict[str, list[int]] = {}
    for i, fam in enumerate(info["families"]):
        if fam:
            families.setdefault(fam, []).append(i)
    plan = []
    for fam in sorted(families):
        for j in families[fam]:
            for partner in families[fam]:
                if partner == j:
                    continue
                if len(info["pool"][j]) == len(info["pool"][partner]):
                    plan += [(j, partner, lo, lo + 60) for lo in range(0, 480, 60)]
                else:
                    plan += [(j, partner, 0, 240), (j, partner, 240, 600)]
    return plan


def generate(seed_: int, run: int, info: dict) -> dict:
    rng = core.run_rng(PROP, seed_, run)
    n_pool = len(info["pool"])
    families: dict[str, list[int]] = {}
    for i, fam in enumerate(info["families"]):
        if fam:
            families.setdefault(fam, []).append(i)
    plan = directed_plan(info)
    if run < len(plan):
        # directed placement: the complete entry of a colliding key is on disk, then the writer of the
        # other key is killed after a number of bytes drawn from one stratum of the file
        j, partner, lo, hi = plan[run]
        lanes = core.hash_configs(seed_, run)
        cfg = next(c for c in lanes if c.startswith("HU")) if info["families"][j].startswith("str:") else lanes[0]
        workload = sweep_workload(cfg, j, "user", rng.randrange(lo, hi), partner, prefill=True)
        workload["plan"] = True
        return workload
    subset: list[int] = []
    if rng.random() < 0.75:
        fam = rng.choice(sorted(families))
        members = families[fam]
        subset += rng.sample(members, k=min(len(members), rng.choice([2, 2, 3])))
    while len(subset) < rng.choice([2, 3, 4, 5]):
        j = rng.randrange(n_pool)
        if j not in subset:
            subset.append(j)
    fault_mode = rng.random() < 0.7
    n_phases = rng.choice([1, 1, 2, 2, 3])
    phases = []
    cfgs = core.hash_configs(seed_, run)
    cfg = rng.choice(cfgs)
    for p in range(n_phases):
        if p > 0 and rng.random() < 0.5:
            cfg = rng.choice(cfgs)
        actors = []
        for _ in range(rng.choice([1, 2, 2, 3, 3, 4])):
            calls = [{"expr": rng.choice(subset), "dir": "default" if rng.random() < 0.1 else "shared"}
                     for _ in range(rng.choice([1, 1, 2, 2, 3, 4]))]
            actors.append({"kind": "user", "calls": calls})
        if rng.random() < 0.4:
            calls = [{"expr": rng.choice(subset), "dir": "shared"} for _ in range(rng.choice([1, 1, 2]))]
            actors.insert(rng.randrange(len(actors) + 1), {"kind": "legacy", "calls": calls})
        has_legacy = any(a["kind"] == "legacy" for a in actors)
        if FOREIGN_FILES and rng.random() < 0.25 and not has_legacy:
            # (never together with a legacy writer: two writers filling one file in place at the same time
            # leave interleaved bytes, and unpickling those can ask for a multi-gigabyte memo)
            calls = [{"expr": rng.choice(subset), "junk": rng.randrange(64)} for _ in range(rng.choice([1, 1, 2]))]
            actors.insert(rng.randrange(len(actors) + 1), {"kind": "foreign", "calls": calls})
        chunk_modes = rng.choice([[0], [0, 1], [1], [1, 2], [2], [0, 1, 2, 3], [3, 1]])
        knobs = {
            "kills": rng.choice([0, 1, 1, 2]) if fault_mode else 0,
            "errors": rng.choice([0, 0, 1]) if fault_mode else 0,
            "syscall_errors": rng.random() < 0.4,
            "chunk_modes": chunk_modes,
            "w_stay": rng.choice([1, 4, 16]),
            "w_none": rng.choice([15, 40, 120]),
            "pid_base": 4000 + 16 * p,
            "max_steps": 6000,
        }
        phases.append({"cfg": cfg, "actors": actors, "knobs": knobs,
                       "clear_before": p > 0 and rng.random() < 0.1})
    # half of the runs use real fork()ed processes as actors (SIGKILL, per-process module state),
    # the other half baton-passing threads; the schedule and the seams are the same in both
    mode = rng.choice(["thread", "proc"])
    for phase in phases:
        phase["knobs"]["mode"] = mode
    return {"phases": phases, "fault_mode": fault_mode, "mode": mode}


def sweep_workload(cfg: str, j: int, writer: str, n: int, partner: int | None, prefill: bool = False) -> dict:
    """Directed fault placement: one writer, byte-wise chunks, killed at scheduler step ``n``;
    then a fault-free user asks for the same expression (and a colliding partner)."""
    quiet = {"kills": 0, "errors": 0, "chunk_modes": [0], "pid_base": 4100, "max_steps": 20000}
    calls = [{"expr": j, "dir": "shared"}]
    if partner is not None:
        calls.append({"expr": partner, "dir": "shared"})
    phases = [
        {"cfg": cfg, "actors": [{"kind": writer, "calls": [{"expr": j, "dir": "shared"}]}],
         "knobs": {"kills": 1, "errors": 0, "chunk_modes": [4], "kill_at_step": n, "pid_base": 4000,
                   "max_steps": 400000}},
        {"cfg": cfg, "actors": [{"kind": "user", "calls": calls}], "knobs": quiet},
    ]
    if partner is not None and prefill:
        # the colliding partner's entry is complete on disk before the writer that gets killed starts
        phases.insert(0, {"cfg": cfg, "actors": [{"kind": "user", "calls": [{"expr": partner, "dir": "shared"}]}],
                          "knobs": dict(quiet, pid_base=3900)})
    return {"phases": phases, "fault_mode": True, "sweep": [cfg, j, writer, n]}


def preempt_workload(cfg: str, first: dict, second: dict, plan: list[int], mode: str) -> dict:
    """Directed schedule: actor 0 runs until step plan[0], then actor 1 until plan[1] (or its end), ..."""
    return {
        "phases": [{"cfg": cfg, "actors": [first, second],
                    "knobs": {"kills": 0, "errors": 0, "chunk_modes": [0], "preempt_at": plan, "pid_base": 4000,
                              "max_steps": 20000, "mode": mode}}],
        "fault_mode": False, "mode": mode, "preempt": plan,
    }


def full_phases(workload: dict) -> list[dict]:
    return list(workload["phases"]) + _verification_phases(workload["phases"])


# --------------------------------------------------------------------------- #
# execution + oracle
# --------------------------------------------------------------------------- #
def execute(zy: ZygoteSet, seed_: int, run: int, workload: dict, traces=None, tag: str = "") -> dict:
    root = simroot(f"c16-{run}{tag}")
    phases = full_phases(workload)
    out_phases = []
    violations = []
    try:
        for i, phase in enumerate(phases):
            if phase.get("clear_before"):
                shutil.rmtree(root / "cache", ignore_errors=True)
            trace = None
            if traces is not None:
                trace = traces[i] if i < len(traces) else []
            res = zy.call(phase["cfg"], "run_phase",
                          {"root": str(root), "phase": phase, "trace": trace,
                           "rng_seed": f"{PROP}:{seed_}:{run}:{i}"}, timeout=180)
            out_phases.append(res)
            if res.get("step_cap"):
                # a call that does not come back within the step budget: no progress (liveness)
                violations.append({"sig": ("recovery:" if phase.get("verify") else "") + "stuck",
                                   "detail": f"phase {i} cfg={phase['cfg']}: {res['step_cap']}; "
                                             f"last seams {res.get('seam_kinds')}"})
                break
            for r in res["results"]:
                if r["status"] in ("ok", "injected-oserror"):
                    continue
                kind = "wrong-result" if r["status"] == "wrong" else r["status"]
                if kind == "descriptor-leak":
                    violations.append({"sig": kind, "detail": f"phase {i} cfg={phase['cfg']} actor {r['actor']} call {r['call']}: {r['detail']}"})
                    continue
                if r["verify"]:
                    kind = "recovery:" + kind
                violations.append({
                    "sig": kind,
                    "detail": f"phase {i} cfg={phase['cfg']} actor {r['actor']} call {r['call']} "
                              f"expr={r['expr']} dir={r['dir']}: {r['status']} {r['detail']}",
                })
    finally:
        shutil.rmtree(root, ignore_errors=True)
    return {"phases": out_phases, "violations": violations,
            "traces": [p["trace"] for p in out_phases]}


def _fails_with(zy, seed_, run, sig):
    def fails(workload, traces) -> bool:
        try:
            out = execute(zy, seed_, run, workload, traces, tag="-shrink")
        except HarnessError:
            return False
        return any(v["sig"] == sig for v in out["violations"])

    return fails


def shrink(zy, seed_, run, workload, traces, sig, budget_n: int = 120):
    fails = _fails_with(zy, seed_, run, sig)
    budget = [budget_n]
    workload = copy.deepcopy(workload)
    n_real = len(workload["phases"])
    traces = list(traces[:n_real])  # verification phases are fault-free: exhausted trace == zeros

    # 1. phases
    idx = list(range(len(workload["phases"])))

    def with_phases(keep):
        w = dict(workload, phases=[workload["phases"][i] for i in keep])
        t = [traces[i] for i in keep]
        return w, t

    keep = core.ddmin(idx, lambda k: fails(*with_phases(k)), budget)
    if keep:
        workload, traces = with_phases(keep)
    # 2. actors and calls
    for pi in range(len(workload["phases"])):
        phase = workload["phases"][pi]
        if phase.get("clear_before") and budget[0] > 0:
            cand = copy.deepcopy(workload)
            cand["phases"][pi]["clear_before"] = False
            budget[0] -= 1
            if fails(cand, traces):
                workload = cand
                phase = workload["phases"][pi]

        def with_actors(keep_a, pi=pi):
            w = copy.deepcopy(workload)
            w["phases"][pi]["actors"] = [workload["phases"][pi]["actors"][i] for i in keep_a]
            return w

        keep_a = core.ddmin(list(range(len(phase["actors"]))),
                            lambda k: bool(k) and fails(with_actors(k), traces), budget)
        if keep_a:
            workload = with_actors(keep_a)
        for ai in range(len(workload["phases"][pi]["actors"])):
            calls = workload["phases"][pi]["actors"][ai]["calls"]

            def with_calls(keep_c, pi=pi, ai=ai):
                w = copy.deepcopy(workload)
                w["phases"][pi]["actors"][ai]["calls"] = [
                    workload["phases"][pi]["actors"][ai]["calls"][i] for i in keep_c]
                return w

            keep_c = core.ddmin(list(range(len(calls))),
                                lambda k: bool(k) and fails(with_calls(k), traces), budget)
            if keep_c:
                workload = with_calls(keep_c)
    # 3. traces
    for pi in range(len(traces)):
        def with_trace(t, pi=pi):
            return traces[:pi] + [t] + traces[pi + 1 :]

        traces = with_trace(core.shrink_trace(traces[pi], lambda t: fails(workload, with_trace(t)), budget))
    return workload, traces


class Context:
    def __init__(self, zy: ZygoteSet, seed_: int, options: dict) -> None:
        self.zy = zy
        self.seed = seed_
        self.options = options
        self.info = zy.ensure("H0")
        self.sweep: list[tuple] = []
        self.preempt: list[tuple] = []
        if options.get("tier") == "thorough" and not options.get("no_sweep"):
            self.preempt = self._preempt_items()
            self.sweep = self._sweep_items()

    def _sweep_items(self) -> list[tuple]:
        """(cfg, expr, writer kind, kill step) for every scheduler step of every single-writer call;
        files with more than ~2500 steps are swept completely for the first 400 steps and every 7th after."""
        families: dict[str, list[int]] = {}
        for i, fam in enumerate(self.info["families"]):
            if fam:
                families.setdefault(fam, []).append(i)
        items = []
        hu = core.hash_configs(self.seed, 0)[2]
        for j, fam in enumerate(self.info["families"]):
            others = [k for k in families.get(fam, []) if k != j]
            partner = others[0] if others else None
            for writer, cfg in (("user", hu if j % 2 else "H0"), ("legacy", "H0" if j % 2 else hu)):
                dry = execute(self.zy, self.seed, 0, sweep_workload(cfg, j, writer, -1, partner), tag=f"-dry{os.getpid()}")
                steps = dry["phases"][0]["steps"]
                for n in range(steps):
                    if steps <= 1500 or n < 300 or n % 5 == 0 or n > steps - 40:
                        items.append((cfg, j, writer, n, partner, False))
                if writer == "user" and steps <= 1500:
                    # the same sweep over a directory that already holds the complete entry of a colliding
                    # key (file names collide when PYTHONHASHSEED is unset), for every such key
                    for other in others:
                        twin = len(self.info["pool"][other]) == len(self.info["pool"][j])
                        for n in range(steps):
                            if twin or n % 3 == 0:  # entries of equal size: every step; others: every third
                                items.append((hu, j, writer, n, other, True))
        items.sort(key=lambda it: (it[3], it[1], it[2], it[5]))  # low offsets of every file first
        return items

    def _preempt_items(self) -> list[tuple]:
        """Every schedule with one pre-emption (and, for colliding keys, two) of two callers of the
        same or of colliding keys: (cfg, actor0, actor1, plan, mode)."""
        families: dict[str, list[int]] = {}
        for i, fam in enumerate(self.info["families"]):
            if fam:
                families.setdefault(fam, []).append(i)
        lanes = core.hash_configs(self.seed, 0)
        items = []
        pairs = []
        for j in range(len(self.info["pool"])):
            pairs.append((j, j, "user", "user"))
            if j % 3 == 0:
                pairs.append((j, j, "legacy", "user"))
        for members in families.values():
            for a in members:
                for b in members:
                    if a != b:
                        pairs.append((a, b, "user", "user"))
            pairs.append((members[0], members[-1], "legacy", "user"))
        for pi, (a, b, kind_a, kind_b) in enumerate(pairs):
            cfg = lanes[pi % 3]
            first = {"kind": kind_a, "calls": [{"expr": a, "dir": "shared"}]}
            second = {"kind": kind_b, "calls": [{"expr": b, "dir": "shared"}]}
            mode = "proc" if pi % 2 else "thread"
            dry = execute(self.zy, self.seed, 0, preempt_workload(cfg, first, second, [10**9], mode),
                          tag=f"-dryp{os.getpid()}")
            steps = dry["phases"][0]["steps"]  # actor 0 to completion, then actor 1
            for k in range(1, steps):
                items.append((cfg, first, second, [k], mode))
            if a != b:
                for k1 in range(1, steps, 2):
                    for k2 in range(k1 + 1, steps + 8, 3):
                        items.append((cfg, first, second, [k1, k2], mode))
        return items

    def run(self, r: int) -> dict:
        if r < len(self.preempt):
            cfg, first, second, plan, mode = self.preempt[r]
            workload = preempt_workload(cfg, first, second, plan, mode)
        elif r < len(self.preempt) + len(self.sweep):
            cfg, j, writer, n, partner, prefill = self.sweep[r - len(self.preempt)]
            workload = sweep_workload(cfg, j, writer, n, partner, prefill)
        else:
            workload = generate(self.seed, r - len(self.sweep) - len(self.preempt), self.info)
        out = execute(self.zy, self.seed, r, workload)
        record = {"run": r, "violations": [], "stats": self._stats(workload, out),
                  "workload": workload if r < 3 else None}
        seen = set()
        for v in out["violations"]:
            if v["sig"] in seen:
                continue
            seen.add(v["sig"])
            record["violations"].append(dict(v, workload=workload, traces=out["traces"]))
        return record

    def _stats(self, workload, out) -> dict:
        fired = {"kill": 0, "error": 0, "switch": 0}
        probes: dict[str, int] = {}
        kill_sites: dict[str, int] = {}
        error_sites: dict[str, int] = {}
        statuses: dict[str, int] = {}
        steps = 0
        for ph in out["phases"]:
            steps += ph["steps"]
            for k, n in ph["fired"].items():
                fired[k] += n
            for k, n in ph["probes"].items():
                probes[k] = probes.get(k, 0) + n
            for k, n in ph["kill_sites"].items():
                kill_sites[k] = kill_sites.get(k, 0) + n
            for k, n in ph.get("error_sites", {}).items():
                error_sites[k] = error_sites.get(k, 0) + n
            for r in ph["results"]:
                key = ("verify:" if r["verify"] else "") + r["status"]
                statuses[key] = statuses.get(key, 0) + 1
            if ph["tmp_litter"]:
                probes["phase_ended_with_temp_litter"] = probes.get("phase_ended_with_temp_litter", 0) + 1
            if ph["zero_len_pkl"]:
                probes["phase_ended_with_zero_length_pkl"] = probes.get("phase_ended_with_zero_length_pkl", 0) + 1
        phases = workload["phases"]
        return {
            "steps": steps, "fired": fired, "probes": probes, "kill_sites": kill_sites, "error_sites": error_sites,
            "statuses": statuses,
            "cfgs": [p["cfg"] for p in phases],
            "n_actors": sum(len(p["actors"]) for p in phases),
            "legacy": sum(1 for p in phases for a in p["actors"] if a["kind"] == "legacy"),
            "foreign": sum(1 for p in phases for a in p["actors"] if a["kind"] == "foreign"),
            "fault_mode": workload["fault_mode"],
            "mode": workload.get("mode", "thread"),
            "armed": {"kill": sum(p["knobs"]["kills"] for p in phases),
                      "error": sum(p["knobs"]["errors"] for p in phases)},
            "signature": core.sha([p["events_digest"] for p in out["phases"]])[:20],
            "sweep": None if workload.get("plan") else workload.get("sweep"),
            "plan": workload.get("sweep") if workload.get("plan") else None,
            "preempt": workload.get("preempt"),
            "killed_at": [p.get("killed_at") for p in out["phases"] if p.get("killed_at")],
            "listing": [p["listing_digest"][:12] for p in out["phases"]],
        }

    def finish(self) -> dict:
        return {"pool": self.info.get("pool"), "colliding_keys_H0": self.info.get("colliding_keys"),
                "sweep_items": len(self.sweep), "preempt_items": len(self.preempt)}


def coverage(records: list[dict], extras: list[dict], options: dict) -> dict:
    def add(dst, src):
        for k, n in src.items():
            dst[k] = dst.get(k, 0) + n

    fired, armed, probes, kill_sites, statuses, cfgs = {}, {}, {}, {}, {}, {}
    error_sites: dict = {}
    steps = 0
    signatures = set()
    nontrivial = set()
    samples = []
    for rec in records:
        st = rec["stats"]
        steps += st["steps"]
        add(fired, st["fired"])
        add(armed, st["armed"])
        add(probes, st["probes"])
        add(kill_sites, st["kill_sites"])
        add(error_sites, st.get("error_sites", {}))
        add(statuses, st["statuses"])
        for c in st["cfgs"]:
            cfgs[c] = cfgs.get(c, 0) + 1
        signatures.add(st["signature"])
        if st["fired"]["switch"] or st["fired"]["kill"] or st["fired"]["error"] or len(st["cfgs"]) > 1:
            nontrivial.add(st["signature"])
    for rec in records:
        if rec.get("workload") is not None and len(samples) < 3:
            samples.append({"run": rec["run"], "workload": rec["workload"], "stats": rec["stats"]})
    pool = next((e.get("pool") for e in extras if e.get("pool")), [])
    sweep_total = max((e.get("sweep_items", 0) for e in extras), default=0)
    sweep_done = [r for r in records if r["stats"].get("sweep")]
    sweep_kill_seams: dict[str, int] = {}
    for r in sweep_done:
        for k in r["stats"]["killed_at"]:
            sweep_kill_seams[k["seam"]] = sweep_kill_seams.get(k["seam"], 0) + 1
    plan_done = [r for r in records if r["stats"].get("plan")]
    preempt_total = max((e.get("preempt_items", 0) for e in extras), default=0)
    preempt_done = [r for r in records if r["stats"].get("preempt")]
    return {
        "directed_preemption_sweep": {
            "description": "thorough tier only: two callers of the same key, or of colliding keys (incl. a legacy writer), "
                           "under every schedule with exactly one pre-emption point, and for colliding keys a grid of "
                           "schedules with two; whole-buffer writes, no other fault",
            "planned_schedules": preempt_total, "executed_schedules": len(preempt_done),
            "complete": bool(preempt_total) and len(preempt_done) == preempt_total,
        },
        "directed_crash_sweep": {
            "description": "thorough tier only: every scheduler step (each single byte of the pickle, and every open/stat/"
                           "mkdir/close/replace seam) of a single-writer call is used once as the kill point, for the current "
                           "writer and for the pinned-protocol legacy writer, followed by a fault-free reader and verification",
            "planned_kill_points": sweep_total, "executed_kill_points": len(sweep_done),
            "complete": bool(sweep_total) and len(sweep_done) == sweep_total,
            "kills_by_seam": sweep_kill_seams,
            "files_swept": len({(r["stats"]["sweep"][1], r["stats"]["sweep"][2]) for r in sweep_done}),
        },
        "directed_plan": {
            "description": "both tiers, first runs of every batch: for every ordered pair of colliding keys the partner's "
                           "entry is written completely, then the writer of the other key is killed at a step drawn from "
                           "one stratum of its file (8 strata for pairs of equal entry size, 2 otherwise), then a "
                           "fault-free reader and verification",
            "executed": len(plan_done),
            "kills_fired": sum(1 for r in plan_done if r["stats"]["killed_at"]),
            "distinct_killed_writers": len({r["stats"]["plan"][1] for r in plan_done}),
        },
        "evaluations": len(records),
        "distinct_nontrivial": len(nontrivial),
        "distinct_signatures": len(signatures),
        "rule": "one evaluation = one simulated run (1-3 phases of 1-4 actors + legacy writer + per-hash-seed verification phases); "
                "signature = hash of the event sequence (actor, seam kind, path/offset, fault) of all phases; "
                "non-trivial = at least one actor switch, kill, injected write error or >1 phase",
        "samples": samples,
        "simulated_steps": steps,
        "runs_first_last": [records[0]["run"], records[-1]["run"]] if records else [],
        "faults_armed": armed,
        "faults_fired": fired,
        "kill_sites": kill_sites,
        "injected_oserror_sites": error_sites,
        "reach_probes": {k: v for k, v in sorted(probes.items()) if not k.startswith("hit:")},
        "cache_hits_by_expression": {k[4:]: v for k, v in sorted(probes.items()) if k.startswith("hit:")},
        "call_outcomes": statuses,
        "phases_per_hash_config_kind": {"PYTHONHASHSEED=0": cfgs.get("H0", 0),
                               "other fixed seed": sum(n for c, n in cfgs.items() if c.startswith("H") and not c.startswith("HU") and c != "H0"),
                               "unset (emulated)": sum(n for c, n in cfgs.items() if c.startswith("HU"))},
        "distinct_hash_seed_configurations": len(cfgs),
        "runs_with_legacy_writer": sum(1 for r in records if r["stats"]["legacy"]),
        "runs_with_foreign_files": sum(1 for r in records if r["stats"].get("foreign")),
        "runs_fault_free_configuration": sum(1 for r in records if not r["stats"]["fault_mode"]),
        "runs_with_real_process_actors": sum(1 for r in records if r["stats"].get("mode") == "proc"),
        "runs_with_thread_actors": sum(1 for r in records if r["stats"].get("mode") != "proc"),
        "expression_pool": pool,
        "colliding_keys_H0": next((e.get("colliding_keys_H0") for e in extras if e.get("colliding_keys_H0")), []),
        "real_components": ["ampform.sympy.perform_cached_doit", "ampform.sympy._cache", "pickle", "SymPy", "pathlib/os on tmpfs"],
        "stubbed_components": ["process -> baton-passing thread or fork()ed process gated by a pipe", "kill -> park + close fds, or SIGKILL", "PYTHONHASHSEED unset -> env var removed", "temp-name entropy/pid/clock -> seeded"],
    }


def minimise(zy: ZygoteSet, seed_: int, run: int, violation: dict, options: dict):
    """Shrink (unless disabled), confirm by replaying in fresh forks, write the replay file."""
    workload, traces, sig = violation["workload"], violation["traces"], violation["sig"]
    original = (copy.deepcopy(workload), list(traces))
    shrunk = False
    if not options.get("no_shrink"):
        workload, traces = shrink(zy, seed_, run, workload, traces, sig,
                                  int(options.get("shrink_budget", 100)))
        shrunk = True
    out = execute(zy, seed_, run, workload, traces, tag="-confirm")
    match = [x for x in out["violations"] if x["sig"] == sig]
    if not match and shrunk:
        (workload, traces), shrunk = original, False  # fragile violation: fall back to the run as generated
        out = execute(zy, seed_, run, workload, traces, tag="-confirm")
        match = [x for x in out["violations"] if x["sig"] == sig]
    if not match:
        return None
    payload = {
        "workload": workload, "traces": out["traces"], "violation": match[0],
        "shrunk": shrunk, 
        "events_digests": [p["events_digest"] for p in out["phases"]],
        "check_version": CHECK_VERSION,
    }
    tag = sig.replace(":", "_").replace("/", "_")
    path = core.write_replay(PROP, seed_, run, payload)
    final = path.with_name(f"{PROP}-{seed_}-{run}-{tag}.json")
    path.rename(final)
    return str(final)


def replay(doc: dict, path: str) -> int:
    seed_ = int(doc.get("seed", 0))
    zy = ZygoteSet(PROFILE, seed_)
    try:
        zy.ensure("H0")
        out = execute(zy, seed_, int(doc.get("run", 0)), doc["workload"], doc["traces"], tag="-replay")
    finally:
        zy.close()
    want = doc["violation"]["sig"]
    digests = [p["events_digest"] for p in out["phases"]]
    print(f"replay {path}: expecting sig={want}; events_digests match recorded: "
          f"{digests == doc.get('events_digests')}")
    for v in out["violations"]:
        if v["sig"] == want:
            print(f"VIOLATION property={PROP} replay={path}")
            print(f"  sig={v['sig']} {v['detail'][:600]}")
            return core.EXIT_VIOLATION
    print(f"replay did not reproduce sig={want}; got {[v['sig'] for v in out['violations']]}")
    return core.EXIT_NONDET
