"""Zygote-side helpers shared by the op-level checks (C06, C13, C15, C17)."""

from __future__ import annotations

import copy
import functools
import importlib
import json
import pkgutil
import sys
from pathlib import Path

from . import canon, core

REACTIONS: dict = {}
CFG = None
THREE_BODY_RELABEL = ("gpp_h", "gpp_c", "gpp1_h", "lc_h", "lc_c", "j3pi_h", "ksp_h", "ppg_h", "ppg_c", "d3pi_h", "kkpi_h", "dkpp_h", "etac_c")


class InjectedFault(Exception):
    """Raised by a probe builder when the simulator injects a callback failure."""


class SimInterrupt(BaseException):
    """Raised from the trace function: a Ctrl-C in the middle of formulate()."""


# --------------------------------------------------------------------------- #
# pools
# --------------------------------------------------------------------------- #
def load_reactions(tags=None) -> dict:
    import qrules  # noqa: PLC0415

    from ampform.helicity.align.dpd import relabel_edge_ids  # noqa: PLC0415

    directory = Path(core.VERIF) / "data" / "reactions"
    index = json.loads((directory / "index.json").read_text())
    for tag in sorted(index["reactions"]):
        if tags is not None and tag not in tags:
            continue
        reaction = qrules.io.load(str(directory / f"{tag}.json"))
        REACTIONS[tag] = reaction
        if tag in THREE_BODY_RELABEL:
            REACTIONS[tag + "+r"] = relabel_edge_ids(reaction)
        if tag in SUBSETTED:
            sub = subset_reaction(reaction)
            REACTIONS[tag + "#1"] = sub
            if tag in THREE_BODY_RELABEL:
                REACTIONS[tag + "#1+r"] = relabel_edge_ids(sub)
        if tag in ALIASED:
            alias = alias_reaction(reaction)
            REACTIONS[tag + "@x"] = alias
            REACTIONS[tag + "@x+r"] = relabel_edge_ids(alias)
    return REACTIONS


ALIASED = ("gpp_h", "lc_h", "d3pi_h")
SUBSETTED = ("lc_h", "ksp_h", "kkpi_h", "gpp_c", "etac_c")


def subset_reaction(reaction):
    """What a user gets who filters a reaction down to one resonance hypothesis: only the transitions
    through the alphabetically first intermediate particle."""
    from qrules.transition import ReactionInfo  # noqa: PLC0415

    names = sorted({s.particle.name for t in reaction.transitions for s in t.intermediate_states.values()})
    keep = names[0]
    transitions = [t for t in reaction.transitions
                   if {s.particle.name for s in t.intermediate_states.values()} == {keep}]
    return ReactionInfo(transitions=transitions or list(reaction.transitions), formalism=reaction.formalism)


def alias_reaction(reaction):
    """The same reaction from a customised particle table: every intermediate particle gets another
    name and LaTeX label, all quantum numbers unchanged.  qrules' Particle equality ignores names,
    so the alias is == to the original although its models must carry the new names."""
    import attrs  # noqa: PLC0415
    from qrules.transition import ReactionInfo, State  # noqa: PLC0415

    intermediate = {s.particle.name for t in reaction.transitions for s in t.intermediate_states.values()}

    def rename(state):
        particle = state.particle
        if particle.name in intermediate:
            particle = attrs.evolve(particle, name=particle.name + "@x", latex=(particle.latex or particle.name) + "^{x}")
        return State(particle, state.spin_projection)

    return ReactionInfo(transitions=[t.convert(state_converter=rename) for t in reaction.transitions],
                        formalism=reaction.formalism)


def ampform_caches() -> dict:
    """All functools caches found in the ampform package (name -> wrapper)."""
    import ampform  # noqa: PLC0415

    out = {}
    for info in pkgutil.walk_packages(ampform.__path__, "ampform."):
        try:
            module = importlib.import_module(info.name)
        except Exception:  # noqa: BLE001, S112
            continue
        for name, obj in vars(module).items():
            if getattr(obj, "__module__", None) != module.__name__:
                continue
            if hasattr(obj, "cache_clear") and hasattr(obj, "cache_info"):
                out[f"{module.__name__}.{name}"] = obj
    return dict(sorted(out.items()))


def cache_sizes() -> dict:
    return {name: c.cache_info().currsize for name, c in ampform_caches().items()}


# --------------------------------------------------------------------------- #
# dynamics registry and probes
# --------------------------------------------------------------------------- #
PROBE_LOG: list = []
_PROBE_STATE = {"raise_at": None, "calls": 0, "fired": False, "nested_at": None, "nested_hook": None, "nested_result": None}


class ProbeBuilder:
    """Recording implementation of the ResonanceDynamicsBuilder protocol."""

    def __init__(self, tag: str, exotic: bool = False, shared: bool = False) -> None:
        self.verif_tag = tag
        self.exotic = exotic
        self.shared = shared

    def __call__(self, resonance, variable_pool):
        import sympy as sp  # noqa: PLC0415

        _PROBE_STATE["calls"] += 1
        if _PROBE_STATE["nested_at"] is not None and _PROBE_STATE["calls"] == _PROBE_STATE["nested_at"]:
            # re-entrancy through the callback seam: the user's builder formulates another model
            # while the outer formulate() is in progress
            hook, _PROBE_STATE["nested_at"] = _PROBE_STATE["nested_hook"], None
            _PROBE_STATE["nested_result"] = hook()
        if _PROBE_STATE["raise_at"] is not None and _PROBE_STATE["calls"] == _PROBE_STATE["raise_at"]:
            _PROBE_STATE["fired"] = True
            raise InjectedFault(f"probe {self.verif_tag} call {_PROBE_STATE['calls']}")
        vp = variable_pool
        PROBE_LOG.append({
            "tag": self.verif_tag, "particle": resonance.name,
            "m": vp.incoming_state_mass.name,
            "m1": vp.outgoing_state_mass1.name, "m2": vp.outgoing_state_mass2.name,
            "L": vp.angular_momentum,
            "theta": vp.helicity_theta.name, "phi": vp.helicity_phi.name,
        })
        L = sp.Integer(-1) if vp.angular_momentum is None else sp.Integer(vp.angular_momentum)
        expr = sp.Function(f"Dyn{self.verif_tag}")(
            vp.incoming_state_mass, vp.outgoing_state_mass1, vp.outgoing_state_mass2, L)
        par = sp.Symbol(f"q_{{{self.verif_tag},{resonance.name}}}", real=True)
        if self.shared:
            # one parameter shared by all resonances, with a suggested default that differs from
            # resonance to resonance ("last suggested default wins" is what the builder documents)
            radius = sp.Symbol("q_{shared}", positive=True)
            return par * expr * radius, {par: 0.25, radius: round(float(resonance.mass), 3)}
        if self.exotic:
            # parameters a custom lineshape may legitimately use: assumptions that are only False
            # facts, an Indexed parameter, an integer-valued default
            n = sp.Symbol(f"q_{{n,{resonance.name}}}", integer=False)
            g = sp.Symbol(f"q_{{g,{resonance.name}}}", zero=False)
            a = sp.IndexedBase(f"q_{{a,{resonance.name}}}")[0]
            return par * expr * g**n + a, {par: 0.25, n: 2, g: 1.5, a: 3}
        return par * expr, {par: 0.25 + len(self.verif_tag)}

    def __repr__(self) -> str:
        return f"Probe({self.verif_tag})"


def arm_probe_fault(k) -> None:
    _PROBE_STATE.update(raise_at=k, calls=0, fired=False)


def arm_nested_formulate(k, hook) -> None:
    _PROBE_STATE.update(nested_at=k, nested_hook=hook, nested_result=None, calls=0)


def take_nested_result():
    result, _PROBE_STATE["nested_result"] = _PROBE_STATE["nested_result"], None
    _PROBE_STATE.update(nested_at=None, nested_hook=None)
    return result


def probe_fault_fired() -> bool:
    return bool(_PROBE_STATE["fired"])


_DYN: dict = {}


def dynamics_registry() -> dict:
    if not _DYN:
        from ampform.dynamics import builder as b  # noqa: PLC0415
        from ampform.dynamics.phasespace import PhaseSpaceFactorSWave  # noqa: PLC0415

        _DYN.update({
            "non_dynamic": b.create_non_dynamic,
            "non_dynamic_ff": b.create_non_dynamic_with_ff,
            "bw": b.create_relativistic_breit_wigner,
            "bw_ff": b.create_relativistic_breit_wigner_with_ff,
            "bw_analytic": b.create_analytic_breit_wigner,
            "bw_swave": b.RelativisticBreitWignerBuilder(
                energy_dependent_width=True, form_factor=False, phsp_factor=PhaseSpaceFactorSWave),
            "bw_ffonly": b.RelativisticBreitWignerBuilder(form_factor=True, energy_dependent_width=False),
            "bw_edw": b.RelativisticBreitWignerBuilder(energy_dependent_width=True, form_factor=False),
            "probeA": ProbeBuilder("A"),
            "probeB": ProbeBuilder("B"),
            "probeC": ProbeBuilder("C"),
            "probeX": ProbeBuilder("X", exotic=True),
            "probeS": ProbeBuilder("S", shared=True),
        })
    return _DYN


def dynamics_id(fn) -> str:
    for name, candidate in dynamics_registry().items():
        if candidate is fn or candidate == fn:
            return name
    return f"unknown:{fn!r}"


# --------------------------------------------------------------------------- #
# builders: configuration read-back and imposition
# --------------------------------------------------------------------------- #
def topology_key(topology) -> list:
    return [sorted(topology.nodes),
            sorted((i, -1 if e.originating_node_id is None else e.originating_node_id,
                    -1 if e.ending_node_id is None else e.ending_node_id)
                   for i, e in topology.edges.items())]


def topology_from_key(key):
    from qrules.topology import Edge, Topology  # noqa: PLC0415

    nodes, edges = key
    return Topology(
        nodes=set(nodes),
        edges={i: Edge(None if o < 0 else o, None if e < 0 else e) for i, o, e in edges},
    )


def alignment_key(alignment) -> str:
    name = type(alignment).__name__
    ref = getattr(alignment, "reference_subsystem", None)
    return name if ref is None else f"{name}({ref})"


def make_alignment(key: str):
    from ampform.helicity.align import NoAlignment  # noqa: PLC0415
    from ampform.helicity.align.axisangle import AxisAngleAlignment  # noqa: PLC0415
    from ampform.helicity.align.dpd import DalitzPlotDecomposition  # noqa: PLC0415

    if key in ("none", "NoAlignment"):
        return NoAlignment()
    if key in ("axis", "AxisAngleAlignment"):
        return AxisAngleAlignment()
    if key.startswith(("dpd", "DalitzPlotDecomposition")):
        digit = next(c for c in key if c.isdigit())
        if "." in key:  # the validator accepts 1.0 as well as 1; the public attribute then reads 1.0
            return DalitzPlotDecomposition(reference_subsystem=float(digit))
        return DalitzPlotDecomposition(reference_subsystem=int(digit))
    raise ValueError(key)


NAMING_FLAGS = ("insert_parent_helicities", "insert_child_helicities", "insert_ls_combinations")


def config_key(builder, rx_tag: str) -> dict:
    """Observable configuration of a builder, read back through its public API."""
    cfg = builder.config
    stable = cfg.stable_final_state_ids
    return {
        "rx": rx_tag,
        "class": type(builder).__name__,
        "alignment": alignment_key(cfg.spin_alignment),
        "scalar": cfg.scalar_initial_state_mass,
        "stable": None if stable is None else sorted(stable),
        "helcoup": cfg.use_helicity_couplings,
        "dynamics": [dynamics_id(fn) for fn in builder.dynamics.values()],
        "topologies": sorted(topology_key(t) for t in builder.adapter.registered_topologies),
        "naming": {f: getattr(builder.naming, f) for f in NAMING_FLAGS if hasattr(builder.naming, f)},
    }


def impose(key: dict):
    """A new builder carrying exactly the configuration ``key``."""
    import ampform  # noqa: PLC0415

    builder = ampform.get_builder(REACTIONS[key["rx"]])
    assert type(builder).__name__ == key["class"], (type(builder).__name__, key["class"])
    builder.config.spin_alignment = make_alignment(key["alignment"])
    builder.config.scalar_initial_state_mass = key["scalar"]
    builder.config.stable_final_state_ids = key["stable"]
    builder.config.use_helicity_couplings = key["helcoup"]
    registry = dynamics_registry()
    decays = list(builder.dynamics)
    assert len(decays) == len(key["dynamics"])
    for decay, dyn in zip(decays, key["dynamics"]):
        if dyn != "non_dynamic":
            builder.dynamics.assign(decay, registry[dyn])
    have = sorted(topology_key(t) for t in builder.adapter.registered_topologies)
    for tk in key["topologies"]:
        if tk not in have:
            builder.adapter.register_topology(topology_from_key(tk))
    for flag, value in key["naming"].items():
        if getattr(builder.naming, flag) != value:
            setattr(builder.naming, flag, value)
    return builder


MODEL_ATTRS = ("intensity", "amplitudes", "parameter_defaults", "kinematic_variables",
               "components", "reaction_info")


def reaction_digest(reaction) -> str:
    import qrules  # noqa: PLC0415

    return core.sha(qrules.io.asdict(reaction))[:32]


def model_digests(model) -> dict:
    out = {}
    for attr in MODEL_ATTRS:
        value = getattr(model, attr)
        # strict: a model that contains sympy.Dummy symbols is not reproducible in another process
        out[attr] = reaction_digest(value) if attr == "reaction_info" else canon.digest(value, strict_dummies=True)
    return out


def outcome_of(fn) -> tuple[dict, object]:
    """Run ``fn`` (a formulate call); digest the model or name the exception class."""
    try:
        model = fn()
    except (Exception, SimInterrupt) as exc:  # noqa: BLE001
        return {"exception": type(exc).__name__, "message": str(exc)[:160]}, None
    finally:
        # an armed interrupt belongs to the call, not to the harness' own reading of the result
        sys.settrace(None)
    return model_digests(model), model


def compare_outcomes(a: dict, b: dict) -> str | None:
    """Name of the first differing attribute (exception classes only, not messages)."""
    if "exception" in a or "exception" in b:
        if a.get("exception") != b.get("exception"):
            return "exception"
        return None
    for attr in MODEL_ATTRS:
        if a.get(attr) != b.get(attr):
            return attr
    return None


def fresh_copy(reaction):
    return copy.deepcopy(reaction)


# --------------------------------------------------------------------------- #
# interrupt fault
# --------------------------------------------------------------------------- #
class Interrupter:
    """Raise SimInterrupt at the N-th traced line of ampform code."""

    def __init__(self, n: int) -> None:
        import ampform  # noqa: PLC0415

        self.n = n
        self.count = 0
        self.fired_at = None
        self.prefix = str(Path(ampform.__file__).resolve().parent)

    def _local(self, frame, event, arg):  # noqa: ARG002
        if event == "line":
            self.count += 1
            if self.count == self.n and self.fired_at is None:
                self.fired_at = f"{Path(frame.f_code.co_filename).name}:{frame.f_lineno}"
                raise SimInterrupt(self.fired_at)
        return self._local

    def _global(self, frame, event, arg):  # noqa: ARG002
        if frame.f_code.co_filename.startswith(self.prefix):
            return self._local
        return None

    def __enter__(self):
        sys.settrace(self._global)
        return self

    def __exit__(self, *exc):
        sys.settrace(None)
        return False
