"""C06/C15, zygote side: process life-cycle segments and pristine references (DESIGN §4)."""

from __future__ import annotations

import json
import os
import pickle
import random

from . import canon, core
from . import z_common as zc

CFG = None
EXPRS: list = []  # C15 expression pool: {"name", "expr", "unfolded": bool}


def preload(cfg: str) -> dict:
    global CFG  # noqa: PLW0603
    CFG = cfg
    zc.load_reactions()
    zc.dynamics_registry()
    sizes = zc.cache_sizes()
    nonempty = {k: v for k, v in sizes.items() if v and not k.endswith("get_qrules_version")}
    return {"reactions": sorted(zc.REACTIONS), "caches": sorted(sizes), "nonempty_caches": nonempty}


# --------------------------------------------------------------------------- #
# pristine reference
# --------------------------------------------------------------------------- #
def reference(key: dict) -> dict:
    """Formulate ``key`` once in this pristine fork."""
    try:
        builder = zc.impose(key)
    except Exception as exc:  # noqa: BLE001
        return {"impose_error": f"{type(exc).__name__}: {exc}"}
    outcome, _ = zc.outcome_of(builder.formulate)
    back = json.loads(json.dumps(zc.config_key(builder, key["rx"])))
    if back != json.loads(json.dumps(key)):
        outcome["impose_mismatch"] = json.dumps([key, back], sort_keys=True)[:600]
    return outcome


# --------------------------------------------------------------------------- #
# numeric fingerprint
# --------------------------------------------------------------------------- #
def fingerprint(model, salt: str = "fp") -> str:
    """High-precision value of the full expression at seeded parameter/variable values."""
    import sympy as sp  # noqa: PLC0415

    rng = random.Random(salt)
    expr = model.expression
    values = {}
    for symbol in sorted(expr.free_symbols, key=lambda s: (s.name, sorted(s.assumptions0.items()))):
        name = symbol.name
        if name.startswith(("phi", "\\phi")):
            value = sp.Rational(rng.randrange(-300, 300), 100)
        elif name.startswith(("theta", "zeta", "\\zeta", "\\beta", "\\alpha", "\\gamma")):
            value = sp.Rational(rng.randrange(5, 300), 100)
        elif name.startswith(("m_", "\\Gamma", "d_", "q_")):
            value = sp.Rational(rng.randrange(30, 400), 100)
        else:
            value = sp.Rational(rng.randrange(20, 200), 100) + sp.I * sp.Rational(rng.randrange(-100, 100), 100)
        values[symbol] = value
    number = expr.xreplace(values).doit()
    number = sp.N(number, 30)
    if number.free_symbols or not number.is_number:
        return f"non-numeric:{sorted(str(x) for x in number.free_symbols)[:6]}"
    re, im = number.as_real_imag()
    return f"{sp.N(re, 25)}|{sp.N(im, 25)}"


CHEAP_DYNAMICS = {"non_dynamic", "bw", "probeA", "probeB", "probeC", "bw_ffonly", "non_dynamic_ff"}


def fingerprint_is_cheap(key: dict) -> bool:
    """Decided from the configuration alone (never from a clock): unaligned, simple lineshapes."""
    return key["alignment"] == "NoAlignment" and set(key["dynamics"]) <= CHEAP_DYNAMICS


# --------------------------------------------------------------------------- #
# one segment = one simulated process
# --------------------------------------------------------------------------- #
def hash_inconsistency(obj) -> str | None:
    """a == b must imply hash(a) == hash(b): compare a loaded expression with a node-by-node
    reconstruction of itself made in this process."""
    import sympy as sp  # noqa: PLC0415

    if not isinstance(obj, sp.Basic):
        return None
    try:
        rebuilt = canon.rebuild(obj)
        if rebuilt == obj and hash(rebuilt) != hash(obj):
            return f"{type(obj).__name__}: equal to its own reconstruction but hash differs"
        probe = {obj: 1}
        if rebuilt == obj and rebuilt not in probe:
            return f"{type(obj).__name__}: dict lookup with an equal key fails"
    except Exception:  # noqa: BLE001
        return None
    return None


def run_segment(ops: list, disk: str, segment: int = 0) -> dict:  # noqa: C901, PLR0912, PLR0915
    import ampform  # noqa: PLC0415

    builders: dict[int, dict] = {}
    dumped: dict[str, object] = {}
    kept: list = []
    events: list[dict] = []
    caches = zc.ampform_caches()
    cache_names = sorted(caches)
    sizes_before = zc.cache_sizes()
    faults = {"probe_raise": [0, 0], "interrupt": [0, 0], "evict": [0, 0], "failed_formulate": [0, 0],
              "nested_formulate": [0, 0]}
    interrupt_sites: dict[str, int] = {}

    for oi, op in enumerate(ops):
        kind = op["op"]
        b = builders.get(op.get("b"))
        ev = {"i": oi, "op": kind}
        try:
            if kind == "new":
                reaction = zc.REACTIONS[op["rx"]]
                if op.get("copy"):
                    reaction = zc.fresh_copy(reaction)
                builders[op["b"]] = {"builder": ampform.get_builder(reaction), "rx": op["rx"],
                                     "last": None, "dirty": True, "model": None}
            elif b is None and kind not in ("evict", "load", "dump_expr", "load_expr", "build_expr"):
                ev["skipped"] = "no builder"
            elif kind == "drop":
                import gc  # noqa: PLC0415

                builders.pop(op["b"], None)
                b = None
                gc.collect()
            elif kind == "align":
                b["builder"].config.spin_alignment = zc.make_alignment(op["v"])
                b["dirty"] = True
            elif kind == "align_inplace":
                alignment = b["builder"].config.spin_alignment
                if hasattr(alignment, "reference_subsystem"):
                    alignment.reference_subsystem = int(op["v"])  # reconfigure the installed object in place
                    b["dirty"] = True
                else:
                    ev["skipped"] = "alignment has no reference subsystem"
            elif kind == "scalar":
                b["builder"].config.scalar_initial_state_mass = bool(op["v"])
                b["dirty"] = True
            elif kind == "stable":
                b["builder"].config.stable_final_state_ids = op["v"]
                b["dirty"] = True
            elif kind == "helcoup":
                b["builder"].config.use_helicity_couplings = bool(op["v"])
                b["dirty"] = True
            elif kind == "naming":
                naming = b["builder"].naming
                if hasattr(naming, op["flag"]):
                    setattr(naming, op["flag"], bool(op["v"]))
                    b["dirty"] = True
            elif kind == "assign":
                builder = b["builder"]
                fn = zc.dynamics_registry()[op["dyn"]]
                sel = op["sel"]
                if sel["kind"] == "name":
                    names = sorted({d.parent.particle.name for d in builder.dynamics})
                    builder.dynamics.assign(names[sel["i"] % len(names)], fn)
                elif sel["kind"] == "decay":
                    decays = list(builder.dynamics)
                    builder.dynamics.assign(decays[sel["i"] % len(decays)], fn)
                else:
                    transitions = builder.reaction.transitions
                    t = transitions[sel["i"] % len(transitions)]
                    nodes = sorted(t.topology.nodes)
                    builder.dynamics.assign((t, nodes[sel.get("n", 0) % len(nodes)]), fn)
                b["dirty"] = True
            elif kind == "permutate":
                b["builder"].adapter.permutate_registered_topologies()
                b["dirty"] = True
            elif kind == "register":
                builder = b["builder"]
                base = sorted(builder.adapter.registered_topologies, key=zc.topology_key)
                topology = base[op["t"] % len(base)]
                ids = sorted(topology.outgoing_edge_ids)
                rot = ids[op.get("r", 1) % len(ids):] + ids[:op.get("r", 1) % len(ids)]
                mapping = dict(zip(ids, rot))
                import attrs  # noqa: PLC0415

                permuted = attrs.evolve(topology, edges={mapping.get(i, i): e for i, e in topology.edges.items()})
                builder.adapter.register_topology(permuted)
                b["dirty"] = True
            elif kind == "evict":
                name = cache_names[op["cache"] % len(cache_names)]
                faults["evict"][0] += 1
                if caches[name].cache_info().currsize:
                    faults["evict"][1] += 1
                caches[name].cache_clear()
                ev["cache"] = name
            elif kind == "formulate":
                builder = b["builder"]
                key = zc.config_key(builder, b["rx"])
                fault = op.get("fault") or {}
                injected = False
                if fault.get("kind") == "probe_raise":
                    faults["probe_raise"][0] += 1
                    zc.arm_probe_fault(int(fault["k"]))
                    outcome, model = zc.outcome_of(builder.formulate)
                    injected = zc.probe_fault_fired()
                    zc.arm_probe_fault(None)
                    faults["probe_raise"][1] += int(injected)
                elif fault.get("kind") == "nested":
                    # at the k-th probe call a sibling builder is formulated from inside the callback
                    faults["nested_formulate"][0] += 1
                    inner = builders.get(fault.get("inner"))
                    if inner is not None and inner is not b:
                        inner_key = zc.config_key(inner["builder"], inner["rx"])
                        zc.arm_nested_formulate(int(fault["k"]), lambda: zc.outcome_of(inner["builder"].formulate))
                    outcome, model = zc.outcome_of(builder.formulate)
                    nested = zc.take_nested_result()
                    if nested is not None:
                        faults["nested_formulate"][1] += 1
                        events.append({"i": oi, "op": "formulate", "key": inner_key, "outcome": nested[0],
                                       "injected": False, "repeat_of_previous": False, "nested": True})
                        inner["last"], inner["dirty"] = nested[0], False
                        if nested[1] is not None:
                            inner["model"] = nested[1]
                elif fault.get("kind") == "interrupt":
                    faults["interrupt"][0] += 1
                    with zc.Interrupter(int(fault["line"])) as intr:
                        outcome, model = zc.outcome_of(builder.formulate)
                    injected = intr.fired_at is not None
                    if injected:
                        faults["interrupt"][1] += 1
                        interrupt_sites[intr.fired_at] = interrupt_sites.get(intr.fired_at, 0) + 1
                    ev["traced_lines"] = intr.count
                else:
                    outcome, model = zc.outcome_of(builder.formulate)
                if "exception" in outcome and not injected:
                    faults["failed_formulate"][1] += 1
                ev.update(key=key, outcome=outcome, injected=injected,
                          repeat_of_previous=(not b["dirty"]) and b["last"] is not None)
                if not injected:
                    if ev["repeat_of_previous"]:
                        ev["repeat_diff"] = zc.compare_outcomes(b["last"], outcome)
                    b["last"] = outcome
                    b["dirty"] = False
                    if model is not None:
                        b["model"] = model
                else:
                    b["last"] = None
            elif kind == "edit_model":
                # the user works with the model that formulate() returned: values and entries change in place
                model = b["model"]
                if model is None:
                    ev["skipped"] = "no model"
                else:
                    keys = list(model.parameter_defaults)
                    if keys:
                        model.parameter_defaults[op.get("i", 0) % len(keys)] = 42.5
                    first = next(iter(model.components))
                    model.components[first] = model.components[first] + 1
                    model.kinematic_variables.pop(next(iter(model.kinematic_variables)), None)
            elif kind == "touch_model":
                # a user annotates the model in place: a derived component that does not sort last
                model = b["model"]
                if model is None:
                    ev["skipped"] = "no model"
                else:
                    first = next(iter(model.components.values()))
                    model.components["I_{total}"] = 2 * first
                    model.components.move_to_end("I_{total}", last=bool(op.get("last")))
            elif kind == "dump":
                model = b["model"]
                if model is None:
                    ev["skipped"] = "no model"
                else:
                    path = os.path.join(disk, op["file"])
                    with open(path, "wb") as f:
                        pickle.dump(model, f)
                    dumped[op["file"]] = model
                    ev.update(file=op["file"], digests=zc.model_digests(model), size=os.path.getsize(path),
                              key=zc.config_key(b["builder"], b["rx"]))
                    if op.get("fingerprint") and fingerprint_is_cheap(ev["key"]):
                        ev["fingerprint"] = fingerprint(model)
                        with open(path + ".fp", "w") as f:
                            f.write("fingerprint requested")
            elif kind == "load":
                path = os.path.join(disk, op["file"])
                if not os.path.exists(path):
                    ev["skipped"] = "no file"
                else:
                    ev["file"] = op["file"]
                    try:
                        with open(path, "rb") as f:
                            loaded = pickle.load(f)  # noqa: S301
                    except Exception as exc:  # noqa: BLE001
                        ev["load_error"] = f"{type(exc).__name__}: {str(exc)[:120]}"
                    else:
                        ev["digests"] = zc.model_digests(loaded)
                        for part in [loaded.intensity, *list(loaded.amplitudes.values())[:3],
                                     *list(loaded.kinematic_variables.values())[:3],
                                     *list(loaded.parameter_defaults)[:3]]:
                            bad = hash_inconsistency(part)
                            if bad:
                                ev["hash_fail"] = bad
                                break
                        if op.get("fingerprint") and os.path.exists(path + ".fp"):
                            ev["fingerprint"] = fingerprint(loaded)
                        original = dumped.get(op["file"])
                        if original is not None:
                            ev["same_process"] = True
                            for attr in zc.MODEL_ATTRS:
                                if not getattr(loaded, attr) == getattr(original, attr):
                                    ev["eq_fail"] = attr
                                    ev["eq_detail"] = str(canon.first_difference(
                                        getattr(loaded, attr), getattr(original, attr)))[:300]
                                    break
                            if loaded != original and "eq_fail" not in ev:
                                ev["eq_fail"] = "model"
            elif kind == "dump_expr":
                from . import z_exprs  # noqa: PLC0415

                try:
                    entry = z_exprs.pool_entry(op["e"])
                except Exception as exc:  # noqa: BLE001
                    # building or unfolding the input failed (e.g. doit() of a composite that contains a
                    # class which cannot be rebuilt from its args): not a statement about pickling
                    ev["skipped"] = f"input could not be built: {type(exc).__name__}: {str(exc)[:80]}"
                    events.append(ev)
                    continue
                path = os.path.join(disk, op["file"])
                if op.get("interrupt"):
                    # Ctrl-C in the middle of a first attempt to pickle; the user then simply tries again
                    try:
                        with zc.Interrupter(int(op["interrupt"])) as intr:
                            pickle.dumps(entry["expr"])
                    except zc.SimInterrupt:
                        ev["interrupted_at"] = intr.fired_at
                with open(path, "wb") as f:
                    pickle.dump(entry["expr"], f)
                dumped[op["file"]] = entry
                ev.update(file=op["file"], name=entry["name"], cls=entry["cls"], unfolded=entry["unfolded"],
                          digest=canon.ndigest(entry["expr"]) if entry["unfolded"] else canon.digest(entry["expr"]))
            elif kind == "build_expr":
                from . import z_exprs  # noqa: PLC0415

                kept.append(z_exprs.pool_entry(op["e"])["expr"])
                ev["name"] = op["e"]
            elif kind == "load_expr":
                path = os.path.join(disk, op["file"])
                if not os.path.exists(path):
                    ev["skipped"] = "no file"
                else:
                    ev["file"] = op["file"]
                    try:
                        with open(path, "rb") as f:
                            loaded = pickle.load(f)  # noqa: S301
                    except Exception as exc:  # noqa: BLE001
                        ev["load_error"] = f"{type(exc).__name__}: {str(exc)[:120]}"
                    else:
                        ev["digest_plain"] = canon.digest(loaded)
                        ev["digest_n"] = canon.ndigest(loaded)
                        bad = hash_inconsistency(loaded)
                        if bad:
                            ev["hash_fail"] = bad
                        entry = dumped.get(op["file"])
                        if entry is not None:
                            ev["same_process"] = True
                            if not entry["unfolded"] and not loaded == entry["expr"]:
                                ev["eq_fail"] = entry["cls"]
                                ev["eq_detail"] = str(canon.first_difference(loaded, entry["expr"]))[:300]
                            if hash(loaded) != hash(entry["expr"]) and not entry["unfolded"]:
                                ev.setdefault("eq_fail", entry["cls"])
                                ev.setdefault("eq_detail", "hash differs")
            else:
                ev["skipped"] = f"unknown op {kind}"
        except Exception as exc:  # noqa: BLE001  configuration ops may legitimately fail
            ev["op_error"] = f"{type(exc).__name__}: {str(exc)[:120]}"
        events.append(ev)
    sizes_after = zc.cache_sizes()
    touched = sorted(k for k in sizes_after if sizes_after[k] != sizes_before.get(k))
    return {"events": events, "faults": faults, "interrupt_sites": interrupt_sites,
            "caches_touched": touched, "cfg": CFG}
