"""simverif — deterministic simulation with fault injection for ComPWA/ampform.

See /verif/DESIGN.md.  Harness code only; the system under test is imported from
``$VERIF_REPO/src`` (default ``/repo/src``) of the *current working tree*.
"""

CHECK_VERSION = 1
