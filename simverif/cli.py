"""Command line: ./check <ID> quick|thorough | replay <file> | selftest-determinism."""

from __future__ import annotations

import importlib
import json
import os
import sys

from . import core, driver

CHECKS = {
    "C16": {"module": "c16", "quick_runs": 1600, "quick_budget": 170, "thorough_budget": 2100},
    "C06": {"module": "c06", "quick_runs": 480, "quick_budget": 170, "thorough_budget": 600},
    "C15": {"module": "c15", "quick_runs": 480, "quick_budget": 170, "thorough_budget": 600},
    "C13": {"module": "c13", "quick_runs": 960, "quick_budget": 170, "thorough_budget": 600},
    "C17": {"module": "c17", "quick_runs": 320, "quick_budget": 170, "thorough_budget": 600},
}


def _run(prop: str, tier: str) -> int:
    spec = CHECKS[prop]
    if tier == "quick":
        runs = core.env_int("VERIF_RUNS", spec["quick_runs"])
        budget = float(core.env_int("VERIF_BUDGET_S", spec["quick_budget"]))
    else:
        runs = core.env_int("VERIF_RUNS", 10**9)
        budget = float(core.env_int("VERIF_BUDGET_S", spec["thorough_budget"]))
    return driver.run_check(spec["module"], tier, runs, budget)


def _replay(path: str) -> int:
    doc = json.loads(open(path).read())
    prop = doc["property"]
    module = importlib.import_module(f"simverif.{CHECKS[prop]['module']}")
    return module.replay(doc, path)


def main(argv: list[str]) -> int:
    if not argv:
        print(__doc__)
        return core.EXIT_HARNESS
    try:
        if argv[0] == "replay":
            return _replay(argv[1])
        if argv[0] == "selftest-determinism":
            from . import selftest  # noqa: PLC0415

            return selftest.determinism(argv[1:])
        prop = argv[0].upper()
        tier = argv[1] if len(argv) > 1 else os.environ.get("VERIF_TIER", "quick")
        if prop not in CHECKS or tier not in ("quick", "thorough"):
            print(__doc__)
            return core.EXIT_HARNESS
        return _run(prop, tier)
    except driver.HarnessError as exc:
        print(f"HARNESS-ERROR {exc}")
        return core.EXIT_HARNESS


if __name__ == "__main__":
    sys.exit(main(sys.argv[1:]))
