"""C16, zygote side: expression pool and one simulated phase (DESIGN §3)."""

from __future__ import annotations

import os
import pickle
import random
from pathlib import Path

from . import canon, core, fs_sim

POOL: list[dict] = []  # {"name", "expr", "unfolded", "ref", "family"}
CFG = None


def _build_pool() -> list[tuple[str, object, str]]:
    import qrules  # noqa: PLC0415
    import sympy as sp  # noqa: PLC0415

    import ampform  # noqa: PLC0415
    from ampform.dynamics import EnergyDependentWidth, FormFactor  # noqa: PLC0415
    from ampform.dynamics.builder import create_relativistic_breit_wigner_with_ff  # noqa: PLC0415
    from ampform.dynamics.phasespace import (  # noqa: PLC0415
        BreakupMomentumSquared,
        EqualMassPhaseSpaceFactor,
        PhaseSpaceFactor,
        PhaseSpaceFactorAbs,
        PhaseSpaceFactorComplex,
        PhaseSpaceFactorSWave,
    )
    from ampform.kinematics import HelicityAdapter  # noqa: PLC0415

    s, m0, w0, m1, m2, d = sp.symbols("s m0 Gamma0 m1 m2 d")
    s_real = sp.Symbol("s", real=True)
    s_nonneg = sp.Symbol("s", nonnegative=True)
    L = sp.Symbol("L", integer=True, nonnegative=True)
    pool: list[tuple[str, object, str]] = []
    for ps in (PhaseSpaceFactor, PhaseSpaceFactorSWave, PhaseSpaceFactorAbs,
               PhaseSpaceFactorComplex, EqualMassPhaseSpaceFactor):
        pool.append((f"edw_{ps.__name__}",
                     EnergyDependentWidth(s, m0, w0, m1, m2, 1, d, phsp_factor=ps), "str:edw"))
    pool.append(("edw_named", EnergyDependentWidth(s, m0, w0, m1, m2, 1, d, name="G"), "str:edw"))
    for tag, sym in (("plain", s), ("real", s_real), ("nonneg", s_nonneg)):
        pool.append((f"bms_{tag}", BreakupMomentumSquared(sym, m1, m2), "str:bms"))
        pool.append((f"psf_{tag}", PhaseSpaceFactor(sym, m1, m2), "str:psf"))
        pool.append((f"ff2_{tag}", FormFactor(sym, m1, m2, 2, d), "str:ff2"))
    # assumption names of equal length: the two pickles have the same size, so a new entry that is
    # written over an old one *in place* and torn can still unpickle cleanly
    # (masses that are known to be non-negative make the two unfoldings differ in form, not only in s)
    mass1, mass2 = sp.symbols("m1 m2", nonnegative=True)
    for tag in ("positive", "negative"):
        sym = sp.Symbol("s", **{tag: True})
        pool.append((f"psf_{tag}", PhaseSpaceFactor(sym, mass1, mass2), "str:psf"))
        pool.append((f"bms_{tag}", BreakupMomentumSquared(sym, mass1, mass2), "str:bms"))
    pool.append(("ff_symbolic_L", FormFactor(s, m1, m2, L, d), ""))
    pool.append(("pow-1", BreakupMomentumSquared(s, m1, m2) ** -1, "hash:pow"))
    pool.append(("pow-2", BreakupMomentumSquared(s, m1, m2) ** -2, "hash:pow"))
    pool.append(("sub-1", FormFactor(s, m1, m2, 1, d) - 1, "hash:sub"))
    pool.append(("sub-2", FormFactor(s, m1, m2, 1, d) - 2, "hash:sub"))
    reactions = Path(core.VERIF) / "data" / "reactions"
    gpp = qrules.io.load(str(reactions / "gpp1_h.json"))
    for symbol, expr in HelicityAdapter(gpp).create_expressions().items():
        pool.append((f"gpp1:{symbol.name}", expr, ""))
    psi4 = qrules.io.load(str(reactions / "psi4_h.json"))
    kv = {k.name: v for k, v in HelicityAdapter(psi4).create_expressions().items()}
    for name in sorted(kv):
        if name in {"phi_13^123", "theta_13^123", "phi_1^13,123", "m_0123", "m_13"}:
            pool.append((f"psi4:{name}", kv[name], ""))
    builder = ampform.get_builder(gpp)
    builder.dynamics.assign("f(0)(980)", create_relativistic_breit_wigner_with_ff)
    model = builder.formulate()
    pool.append(("model:gpp1:expression", model.expression, ""))
    pool.append(("model:gpp1:intensity", model.intensity, ""))
    amp = next(iter(model.amplitudes.values()))
    pool.append(("model:gpp1:amplitude", amp, ""))
    # members of the class-coverage pool of C15 with cheap, stable unfoldings
    from . import z_exprs  # noqa: PLC0415

    library = {e["name"]: e["expr"] for e in z_exprs.library_pool(with_doit=False)}
    for name in ("PoolSum", "PoolSum(Rational)", "UnevaluatableIntegral", "ComplexSqrt",
                 "BlattWeisskopfSquared:L", "SphericalHankel1:L", "Kibble", "Kallen", "is_within_phasespace",
                 "BoostZMatrix(expr)", "MatrixMultiplication", "RelativisticKMatrix", "RelativisticPVector",
                 "ArraySlice(known shape)", "ArraySlice(nested)", "compute_boost_chain", "bw_with_ff"):
        pool.append((f"lib:{name}", library[name], ""))
    # seeded random composites of library expressions (arithmetic, nesting, PoolSum)
    added = 0
    for seed in range(40):
        entry = z_exprs.random_entry(f"c16-{seed}")
        if len(pickle.dumps(entry["expr"])) < 6000:
            pool.append((f"rand:{seed}", entry["expr"], ""))
            added += 1
        if added == 14:
            break
    # a user-defined callable attribute whose type hashes by identity (functools.partial): same str,
    # different unfolding
    import functools  # noqa: PLC0415

    for variant in (1, 2):
        pool.append((f"edw_partial{variant}",
                     EnergyDependentWidth(s, m0, w0, m1, m2, 1, d,
                                          phsp_factor=functools.partial(z_exprs.custom_phase_space, variant=variant)),
                     "str:edw"))
    # same str and same unfolding, different non-SymPy attribute: a benign collision
    pool.append(("lib:PhaseSpaceFactor:unnamed", PhaseSpaceFactor(s_real, m1, m2), "str:psf"))
    pool.append(("lib:PhaseSpaceFactor:named", PhaseSpaceFactor(s_real, m1, m2, name="R"), "str:psf"))
    pool.append(("lib:deprecated", library["deprecated.UnevaluatedExpression"], "str:legacy"))
    legacy = z_exprs._deprecated_class()  # noqa: SLF001
    x, y = sp.symbols("x y")
    pool.append(("lib:deprecated:named", legacy(x, y, 3, name="lg"), "str:legacy"))
    return pool


def preload(cfg: str) -> dict:
    global CFG  # noqa: PLW0603
    CFG = cfg
    names = []
    for name, expr, family in _build_pool():
        unfolded = expr.doit()
        POOL.append({"name": name, "expr": expr, "unfolded": unfolded,
                     "ref": canon.ndigest(unfolded), "family": family})
        names.append(name)
    from ampform.sympy._cache import get_readable_hash  # noqa: PLC0415

    keys = [get_readable_hash(e["expr"]) for e in POOL]
    collisions: dict[str, list[str]] = {}
    for e, k in zip(POOL, keys):
        collisions.setdefault(k, []).append(e["name"])
    return {
        "pool": names,
        "families": [e["family"] for e in POOL],
        "colliding_keys": sorted(v for v in collisions.values() if len(v) > 1),
        "refs": core.sha([e["ref"] for e in POOL]),
    }


def _cache_dir(root: str, which: str):
    if which == "default":
        return None
    return os.path.join(root, "cache")


def run_phase(root: str, phase: dict, trace=None, rng_seed: str = "") -> dict:  # noqa: C901, PLR0915
    """One simulated phase: 1..n actors sharing the directory under ``root``."""
    from ampform.sympy import perform_cached_doit  # noqa: PLC0415
    from ampform.sympy._cache import get_readable_hash  # noqa: PLC0415

    chooser = core.Chooser(random.Random(rng_seed) if trace is None else None, trace)
    knobs = dict(phase.get("knobs", {}))
    sim = fs_sim.Sim(chooser, root, knobs)
    os.environ["XDG_CACHE_HOME"] = os.path.join(root, "xdg")
    os.makedirs(os.path.join(root, "xdg"), exist_ok=True)
    verify = bool(phase.get("verify"))

    def classify(entry: dict, outcome) -> tuple[str, str]:
        if isinstance(outcome, BaseException):
            return f"raised:{type(outcome).__name__}", str(outcome)[:200]
        try:
            got = canon.ndigest(outcome)
        except Exception as exc:  # noqa: BLE001
            return "wrong", f"result not digestible: {type(exc).__name__}: {exc}"
        if got == entry["ref"]:
            return "ok", ""
        diff = canon.first_difference(canon.normalize(outcome), canon.normalize(entry["unfolded"]))
        return "wrong", str(diff)[:400]

    def user_script(calls):
        def script(actor):
            for ci, call in enumerate(calls):
                entry = POOL[call["expr"] % len(POOL)]
                directory = _cache_dir(root, call.get("dir", "shared"))
                actor.in_call = True
                actor.injected_error = False
                sim.seam("call-begin", entry["name"])
                try:
                    outcome = perform_cached_doit(entry["expr"], directory)
                except BaseException as exc:  # noqa: BLE001
                    outcome = exc
                status, detail = classify(entry, outcome)
                if status.startswith("raised:") and actor.injected_error and isinstance(outcome, OSError):
                    status = "injected-oserror"
                sim.report({"actor": actor.idx, "call": ci, "expr": entry["name"],
                            "dir": call.get("dir", "shared"), "status": status,
                            "detail": detail, "verify": verify})
                open_now = len(actor.files) + len(actor.fds)
                history = getattr(actor, "open_history", [])
                history.append(open_now)
                actor.open_history = history
                if len(history) >= 3 and history[-1] > history[-2] > history[-3]:
                    # descriptors that stay open after a call and grow with every call: sooner or later a
                    # call raises EMFILE because of the history of calls
                    sim.report({"actor": actor.idx, "call": ci, "expr": entry["name"], "dir": call.get("dir", "shared"),
                                "status": "descriptor-leak", "verify": verify,
                                "detail": f"open descriptors under the cache directory after consecutive calls: {history[-3:]}"})
                sim.seam("call-end", entry["name"])
                actor.in_call = False

        return script

    def legacy_script(calls):
        """Writer following the pinned protocol: open(final, 'wb'); dump(unfolded)."""

        def script(actor):
            for call in calls:
                entry = POOL[call["expr"] % len(POOL)]
                directory = _cache_dir(root, call.get("dir", "shared"))
                if directory is None:
                    from importlib.metadata import version  # noqa: PLC0415

                    directory = os.path.join(root, "xdg", "ampform", f"sympy-v{version('sympy')}")
                actor.in_call = True
                sim.seam("call-begin", "legacy:" + entry["name"])
                os.makedirs(directory, exist_ok=True)
                filename = os.path.join(directory, f"{get_readable_hash(entry['expr'])}.pkl")
                try:
                    with open(filename, "wb") as f:
                        pickle.dump(entry["unfolded"], f)
                except OSError:
                    sim.probe("legacy_write_failed_with_injected_error")
                else:
                    sim.probe("legacy_write_completed")
                sim.seam("call-end", "legacy:" + entry["name"])
                actor.in_call = False

        return script

    def foreign_script(calls):
        """Somebody else's bytes under the entry's file name: not producible by any version of the
        library, but 'whatever was stored in the directory before' is what the statement says.
        Never a well-formed (key, value) pair with the right key (that would be undetectable)."""

        def junk(kind: int, entry) -> bytes:
            import numpy as np  # noqa: PLC0415
            import sympy as sp  # noqa: PLC0415

            options = [
                lambda: pickle.dumps((np.array([1, 2]), entry["unfolded"])),
                lambda: pickle.dumps((entry["expr"],)),
                lambda: pickle.dumps((entry["expr"], entry["unfolded"], 0)),
                lambda: pickle.dumps({"key": entry["expr"], "value": entry["unfolded"]}),
                lambda: pickle.dumps((entry["expr"], None)),
                lambda: pickle.dumps((entry["expr"], "not an expression")),
                lambda: pickle.dumps((None, None)),
                lambda: pickle.dumps([entry["expr"], entry["unfolded"]])[:-3],
                lambda: b"\x80\x05garbage that is not a pickle",
                lambda: b"",
                lambda: b"plain text, no pickle at all\n",
                lambda: b"\x80\x04\x95\x1c\x00\x00\x00\x00\x00\x00\x00\x8c\x0eno_such_module\x94\x8c\x05Thing\x94\x93\x94.",
                lambda: pickle.dumps((sp.Symbol("unrelated"), sp.Symbol("unrelated") + 1)),
                lambda: pickle.dumps(np.float64(3.5)),
            ]
            return options[kind % len(options)]()

        def script(actor):
            for call in calls:
                entry = POOL[call["expr"] % len(POOL)]
                directory = _cache_dir(root, "shared")
                actor.in_call = True
                sim.seam("call-begin", "foreign:" + entry["name"])
                os.makedirs(directory, exist_ok=True)
                filename = os.path.join(directory, f"{get_readable_hash(entry['expr'])}.pkl")
                try:
                    with open(filename, "wb") as f:
                        f.write(junk(call.get("junk", 0), entry))
                except OSError:
                    pass
                sim.probe("foreign_file_written")
                sim.seam("call-end", "foreign:" + entry["name"])
                actor.in_call = False

        return script

    for spec in phase["actors"]:
        if spec.get("kind") == "foreign":
            sim.spawn("foreign", foreign_script(spec["calls"]), faults=not verify)
        elif spec.get("kind") == "legacy":
            sim.spawn("legacy", legacy_script(spec["calls"]), faults=not verify)
        else:
            sim.spawn("user", user_script(spec["calls"]), faults=not verify)
    fs_sim.install(sim)
    step_cap = None
    try:
        sim.run()
    except fs_sim.StepCap as exc:
        step_cap = str(exc)
    finally:
        sim.shutdown()
    results = sim.results
    # hit / miss / recompute-after-read paths, from the seam log
    open_calls: dict[int, dict] = {}
    for idx, kind, detail, _fault in sim.events:
        if kind == "call-begin":
            open_calls[idx] = {"name": detail, "read": False, "write": False}
        elif kind in ("read", "write") and idx in open_calls:
            open_calls[idx][kind] = True
        elif kind == "call-end" and idx in open_calls:
            c = open_calls.pop(idx)
            if c["name"].startswith("legacy:"):
                continue
            path = ("recompute_after_read" if c["write"] else "hit") if c["read"] else (
                "miss" if c["write"] else "no_io")
            sim.probe(f"path_{path}")
            if path == "hit":
                sim.probe("hit:" + c["name"])
    listing = []
    for dirpath, _dirnames, filenames in os.walk(root):
        for fn in sorted(filenames):
            p = os.path.join(dirpath, fn)
            listing.append((os.path.relpath(p, root), os.path.getsize(p)))
    listing.sort()
    tmp_litter = sum(1 for name, _ in listing if not name.endswith(".pkl"))
    zero_len = sum(1 for name, size in listing if name.endswith(".pkl") and size == 0)
    # names contain cache keys, which may depend on object addresses: digest kinds and sizes only
    listing = sorted((os.path.splitext(name)[1], size) for name, size in listing)
    return {
        "results": results,
        "trace": chooser.trace,
        "steps": sim.steps,
        "events_digest": sim.events_digest(),
        "fired": sim.fired,
        "kill_sites": sim.kill_sites,
        "error_sites": sim.error_sites,
        "probes": sim.probes,
        "killed": [a.idx for a in sim.actors if a.state == "killed"],
        "killed_at": sim.killed_at,
        "step_cap": step_cap,
        "listing_digest": core.sha(listing),
        "n_files": len(listing),
        "tmp_litter": tmp_litter,
        "zero_len_pkl": zero_len,
        "seam_kinds": sorted({e[1] for e in sim.events}),
        "mode": sim.mode,
    }
