"""Run one zygote-side function in a truly fresh interpreter (no zygote, no fork).

python -m simverif.fresh <profile> <cfg> <fn> <json-args>   -> JSON on stdout
Used by the thorough tier of C06 to cross-check that a fork of a never-used zygote is as
good as a fresh process (the property says "in a fresh process").
"""

from __future__ import annotations

import importlib
import json
import os
import sys


def main() -> None:
    profile, cfg, fn, args = sys.argv[1], sys.argv[2], sys.argv[3], json.loads(sys.argv[4])
    if cfg.startswith("HU"):
        os.environ.pop("PYTHONHASHSEED", None)
    sys.path.insert(0, os.path.join(os.environ.get("VERIF_REPO", "/repo"), "src"))
    sys.dont_write_bytecode = True
    devnull = os.open(os.devnull, os.O_WRONLY)
    out = os.dup(1)
    os.dup2(devnull, 1)
    os.dup2(devnull, 2)
    mod = importlib.import_module(f"simverif.{profile}")
    mod.preload(cfg)
    result = getattr(mod, fn)(**args)
    os.write(out, json.dumps(result, default=str).encode())


if __name__ == "__main__":
    main()
