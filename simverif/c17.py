"""C17, driver side: rename/set-parameter histories (DESIGN §5.2)."""

from __future__ import annotations

import copy

from . import CHECK_VERSION, core
from .driver import HarnessError, ZygoteSet

PROP = "C17"
PROFILE = "z_c17"
ASSUMPTIONS = [
    "degenerate use of the technique, stated plainly: one actor, no schedule and no fault space; what is simulated is the history of rename/set-parameter operations on a pool of models that carry mutable state and may alias each other",
    "reference = root model + composed name map + tracked parameter values; comparison by a renaming-aware canonical digest that sorts commutative arguments and compares dictionaries as mappings (canon trusted)",
    "maps are generated from the defined domain only: fresh names, swaps/chains among parameters, merges of two parameters with identical assumptions and value types, kinematic-variable keys to fresh names, unknown names, empty map",
    "for merging maps structure is not compared (SymPy may combine like terms): names, values and the numeric value decide",
    "numeric identity (30-digit evalf at distinct random parameter values) is sampled on the small reactions only",
]

ROOT_PRESETS = [
    {"rx": "gpp_c", "dyn": "bw"}, {"rx": "gpp_h", "dyn": "bw_ff"}, {"rx": "gpp1_h", "align": "axis", "dyn": "bw"},
    {"rx": "gpp1_h+r", "align": "dpd1", "stable": [1, 2, 3], "scalar": True},
    {"rx": "gpp_h+r", "align": "dpd3", "stable": [1, 2, 3], "dyn": "bw"},
    {"rx": "lc_h", "dyn": "bw"}, {"rx": "lc_h+r", "align": "dpd2", "scalar": True},
    {"rx": "j3pi_h", "dyn": "bw_ff"}, {"rx": "j3pi_h", "align": "axis", "helcoup": True},
    {"rx": "ksp_h", "helcoup": True, "dyn": "bw"}, {"rx": "d3pi_h", "dyn": "bw_analytic"},
    {"rx": "d3pi_h+r", "align": "dpd1", "dyn": "bw"}, {"rx": "ppg_h", "dyn": "bw"},
    {"rx": "ppg_c", "dyn": "probeA"}, {"rx": "psi4_h", "dyn": "bw", "scalar": True, "stable": [0, 1, 2, 3]},
    {"rx": "gpp_c", "stable": [0, 1, 2], "scalar": True, "dyn": "bw_ff"},
    {"rx": "gpp_h", "dyn": "probeX"}, {"rx": "d3pi_h+r", "align": "dpd2", "dyn": "probeX"}, {"rx": "gpp_c", "dyn": "probeX", "scalar": True},
    {"rx": "lc_h#1", "dyn": "bw"}, {"rx": "gpp_h@x", "dyn": "bw_ff"}, {"rx": "lc_h@x+r", "align": "dpd1", "dyn": "bw"},
    {"rx": "kkpi_h", "dyn": "bw"}, {"rx": "dkpp_h", "dyn": "bw_ffonly"}, {"rx": "dkpp_h+r", "align": "dpd3", "stable": [1, 2, 3]},
    {"rx": "etac_c", "dyn": "bw_ff", "scalar": True}, {"rx": "etac_c+r", "align": "dpd1", "dyn": "bw"},
]
NUMERIC_RX = {"dkpp_h", "etac_c", "gpp_c", "gpp_h", "gpp1_h", "gpp1_h+r", "gpp_h+r", "d3pi_h", "d3pi_h+r", "ppg_h", "ppg_c"}


def generate(seed_: int, run: int, reactions: list[str], deep: bool = False) -> dict:
    rng = core.run_rng(PROP, seed_, run)
    presets = [p for p in ROOT_PRESETS if p["rx"] in reactions]
    roots = [dict(rng.choice(presets)) for _ in range(rng.choice([1, 2, 2, 3]))]
    numeric = all(r["rx"] in NUMERIC_RX for r in roots) and rng.random() < 0.5
    ops: list[dict] = []
    for _ in range(rng.randrange(3, 12) if not (deep and run % 3 == 0) else rng.randrange(12, 30)):
        r = rng.random()
        slot = rng.randrange(64)
        if r < 0.6:
            kind = rng.choices(["fresh", "swap", "chain", "merge", "kinvar", "unknown", "empty", "bound", "collide"],
                               weights=[6, 3, 3, 3, 3, 1, 1, 2, 2])[0]
            op = {"op": "rename", "slot": slot, "kind": kind,
                  "picks": [rng.randrange(500) for _ in range(rng.choice([1, 2, 2, 3, 6]))]}
            if kind == "fresh" and rng.random() < 0.3:
                op["any"] = True
            if kind == "bound" and rng.random() < 0.4:
                op["onto_bound"] = True
            op["form"] = rng.choices(["dict", "list", "zip", "generator", "items", "shared"], weights=[5, 1, 1, 1, 1, 2])[0]
            ops.append(op)
        elif r < 0.66:
            # a twice-renamed temporary dies, a clone of the same model is made (likely at a freed address)
            # and the very parameter that the temporary had renamed is renamed on the clone
            pick = rng.randrange(500)
            ops.append({"op": "transient", "slot": slot, "pick": pick, "clone": rng.choice(["pickle", "deepcopy"])})
            ops.append({"op": "rename", "slot": -1, "kind": "fresh", "form": "dict", "picks": [pick]})
        elif r < 0.85:
            ops.append({"op": "set", "slot": slot, "pick": rng.randrange(500),
                        "how": rng.choice(["symbol", "name", "index"]),
                        "value": round(rng.uniform(0.2, 3.0), 3)})
        else:
            ops.append({"op": "check", "slot": slot, "numeric": True})
    if numeric:
        ops.append({"op": "check", "slot": rng.randrange(64), "numeric": True})
        ops.append({"op": "check", "slot": rng.randrange(64), "numeric": True})
    return {"roots": roots, "ops": ops, "numeric": numeric, "cfg": rng.choice(core.hash_configs(seed_, run))}


def execute(zy: ZygoteSet, workload: dict) -> dict:
    res = zy.call(workload["cfg"], "run_history",
                  {"roots": workload["roots"], "ops": workload["ops"], "numeric": workload["numeric"]},
                  timeout=900)
    violations = []
    for mm in res["mismatches"]:
        violations.append({"sig": mm["kind"],
                           "detail": f"roots={[r['rx'] for r in workload['roots']]} cfg={workload['cfg']} {mm['detail']}"})
    return {"result": res, "violations": violations}


def signature_of(workload: dict, out: dict) -> str:
    parts = [[r["rx"] for r in workload["roots"]]]
    for ev in out["result"]["events"]:
        parts.append((ev["op"], sorted((ev.get("renames") or {}).items()), ev.get("alias")))
    return core.sha(parts)[:20]


class Context:
    def __init__(self, zy: ZygoteSet, seed_: int, options: dict) -> None:
        self.zy = zy
        self.seed = seed_
        self.options = options
        self.info = zy.ensure("H0")

    def run(self, r: int) -> dict:
        workload = generate(self.seed, r, self.info["reactions"], deep=self.options.get("tier") == "thorough")
        out = execute(self.zy, workload)
        res = out["result"]
        stats = {
            "signature": signature_of(workload, out), "ops": len(workload["ops"]),
            "renames": sum(1 for ev in res["events"] if ev["op"] == "rename" and ev.get("renames")),
            "numeric_checks": sum(1 for ev in res["events"] if ev["op"] == "numeric"),
            "slots": res["n_slots"], "max_depth": res["max_depth"], "merged_slots": res["n_merged_slots"],
            "probes": res["probes"], "roots": [r_["rx"] for r_ in workload["roots"]],
            "fallback_roots": sum(1 for f in res["fallback_roots"] if f),
        }
        record = {"run": r, "violations": [], "stats": stats, "workload": workload if r < 3 else None}
        seen = set()
        for v in out["violations"]:
            if v["sig"] not in seen:
                seen.add(v["sig"])
                record["violations"].append(dict(v, workload=workload))
        return record

    def finish(self) -> dict:
        return {}


def minimise(zy: ZygoteSet, seed_: int, run: int, violation: dict, options: dict):
    sig = violation["sig"]
    workload = copy.deepcopy(violation["workload"])
    original = copy.deepcopy(violation["workload"])

    def fails(w) -> bool:
        try:
            return any(v["sig"] == sig for v in execute(zy, w)["violations"])
        except HarnessError:
            return False

    shrunk = False
    if not options.get("no_shrink"):
        budget = [int(options.get("shrink_budget", 60))]
        ops = workload["ops"]
        keep = core.ddmin(list(range(len(ops))),
                          lambda k: fails(dict(workload, ops=[ops[i] for i in k])), budget)
        if keep is not None and fails(dict(workload, ops=[ops[i] for i in keep])):
            workload["ops"] = [ops[i] for i in keep]
        if len(workload["roots"]) > 1:
            for i in range(len(workload["roots"])):
                if budget[0] <= 0:
                    break
                w = dict(workload, roots=[workload["roots"][i]])
                budget[0] -= 1
                if fails(w):
                    workload = w
                    break
        if workload["cfg"] != "H0" and budget[0] > 0 and fails(dict(workload, cfg="H0")):
            workload["cfg"] = "H0"
        shrunk = True
    out = execute(zy, workload)
    match = [v for v in out["violations"] if v["sig"] == sig]
    if not match and shrunk:
        workload, shrunk = original, False  # fragile violation: fall back to the run as generated
        out = execute(zy, workload)
        match = [v for v in out["violations"] if v["sig"] == sig]
    if not match:
        return None
    payload = {"workload": workload, "violation": match[0], "shrunk": shrunk,
               "signature": signature_of(workload, out), "check_version": CHECK_VERSION}
    path = core.write_replay(PROP, seed_, run, payload)
    final = path.with_name(f"{PROP}-{seed_}-{run}-{sig.replace(':', '_')}.json")
    path.rename(final)
    return str(final)


def replay(doc: dict, path: str) -> int:
    zy = ZygoteSet(PROFILE, int(doc.get("seed", 0)))
    try:
        out = execute(zy, doc["workload"])
    finally:
        zy.close()
    want = doc["violation"]["sig"]
    print(f"replay {path}: expecting sig={want}; run signature matches recorded: "
          f"{signature_of(doc['workload'], out) == doc.get('signature')}")
    known = core.match_known(core.load_known(), PROP, want)
    for v in out["violations"]:
        if v["sig"] == want:
            if known is not None:
                print(f"KNOWN-FINDING: property={PROP} sig={want} {known['text']}")
                return core.EXIT_OK
            print(f"VIOLATION property={PROP} replay={path}")
            print(f"  sig={v['sig']} {v['detail'][:600]}")
            return core.EXIT_VIOLATION
    print(f"replay did not reproduce sig={want}; got {[v['sig'] for v in out['violations']]}")
    return core.EXIT_NONDET


def coverage(records: list[dict], extras: list[dict], options: dict) -> dict:
    keys = ("ops", "renames", "numeric_checks", "slots", "merged_slots", "fallback_roots")
    tot = dict.fromkeys(keys, 0)
    probes: dict[str, int] = {}
    roots: dict[str, int] = {}
    sigs, nontrivial = set(), set()
    depth = 0
    samples = []
    for rec in records:
        st = rec["stats"]
        for k in keys:
            tot[k] += st[k]
        for k, n in st["probes"].items():
            probes[k] = probes.get(k, 0) + n
        for r in st["roots"]:
            roots[r] = roots.get(r, 0) + 1
        depth = max(depth, st["max_depth"])
        sigs.add(st["signature"])
        if st["renames"] >= 2:
            nontrivial.add(st["signature"])
        if rec.get("workload") is not None and len(samples) < 3:
            samples.append({"run": rec["run"], "workload": rec["workload"]})
    return {
        "evaluations": len(records),
        "distinct_nontrivial": len(nontrivial),
        "rule": "one evaluation = one history of 3-13 rename/set-parameter/check ops over 1-3 root models and the models derived "
                "from them; signature = hash of (root reactions, op kinds, resolved rename maps); non-trivial = at least two effective renames",
        "samples": samples,
        "simulated_steps": tot["ops"],
        "effective_renames": tot["renames"], "numeric_identity_checks": tot["numeric_checks"],
        "model_slots_created": tot["slots"], "slots_with_merged_parameters": tot["merged_slots"],
        "deepest_rename_chain": depth, "roots_that_fell_back_to_plain_builder": tot["fallback_roots"],
        "reach_probes": probes, "root_models_per_reaction": roots,
        "faults_injected": "none (no I/O, callback or schedule in rename_symbols); history-only",
        "real_components": ["HelicityModel.rename_symbols", "ParameterValues", "attrs.evolve converters", "SymPy xreplace"],
        "stubbed_components": [],
    }
